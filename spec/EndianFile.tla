------------------------------ MODULE EndianFile ------------------------------
(* C16 (growth) - asl::File as a positioned byte store with the typed stream operators (include/asl/File.h, src/File.cpp).

   The wire format (ScalarBytes / ArrayBytes / Assemble, byte orders, bit patterns) is that of EndianStream.  This module puts
   it on one path of the file system and one long-lived File object h = File(path):

     state    `out` = the bytes of the path (with what h has written, flushed or not), `exists`;  h: closed or open in a mode,
              position, end-of-file flag, error flag, unflushed data, and ONE byte order (`worder`: File has a single
              setEndian() for both directions; it is ENDIAN_NATIVE at construction and survives close()/open())
     open(READ | WRITE | APPEND | RW)   WRITE empties the file, APPEND keeps it and every write goes to its end, READ and RW
                                        need the file to exist ("rb", "wb", "ab", "rb+")
     h << scalar / Array<T> / String / const char*, h.write(p, n)
                                        the value's bytes in the order in force replace / extend the bytes AT THE POSITION
                                        (a gap left by seek() beyond the end reads as zero bytes); write() returns n
     h >> x / h.read<T>()               the next sizeof(T) bytes assembled in the order in force.  When fewer than sizeof(T)
                                        bytes are left the documentation says nothing about x (the code reads what is there
                                        into x and swaps it all the same): the VALUE is left unconstrained here, but the
                                        call consumes what was left, and end() is true afterwards - that is how the reader
                                        learns that the value is not one
     h.read(p, n)                       the next n bytes, fewer at the end (the count says how many), and only then end()
     h >> String                        the convention of File::operator>>(String&): an int32 length in the order in force,
                                        then that many bytes; its inverse is `h << int(s.length()) << s` (NOT `h << s`, which
                                        writes the characters only).  On input that is not of that form (no length, a negative
                                        one, fewer bytes than it says) the result must still be a String holding bytes of the
                                        file and nothing else (see FReadLenString)
     seek(o, START | HERE | END), position(), end(), flush(), error()
     the stream operators in the wrong mode: `<<` / write() on a file opened for READ change nothing (write() returns 0) and
                                        `>>` / read() on a file opened for WRITE / APPEND deliver nothing (read() returns 0);
                                        error() is true afterwards
     RW                                 reading and writing alternate only with a seek() (or flush() after writing) in between
                                        (C standard 7.21.5.3) - usage discipline, a guard
     other objects on the same path     File(path).content(), .size(), .firstBytes(n) see exactly the bytes written once h
                                        has flushed / closed / seeked (writer, then reader); File(path).put(d) while h is closed
   The same ground (without byte orders and typed values) is covered for C17 by FileModelSeek; here the subject is the typed
   operators and their interplay with the position.

   R: MC_EndianFile_*.cfg emit one case per transition (k = "file")       -> harness/c16_obj_replay
   V: Trace_EndianFile validates recorded random executions                -> harness/c16_obj_record --mode 1           *)
EXTENDS EndianStream, Integers

CONSTANTS InitFiles,    \* model checking: initial states of the path: <<-1>> (no file) or its bytes
          RawChunks,    \* model checking: byte strings written with write(p, n) / put()
          Strings,      \* model checking: strings written with << and with the length-prefixed convention
          ReadTypes,    \* model checking: scalar types read
          ByteCounts,   \* model checking: arguments of read(p, n) / firstBytes(n)
          Seeks         \* model checking: <<offset, from>> pairs

VARIABLES exists,   \* the path exists
          fmode,    \* "closed", "r", "w", "a", "rw"
          fpos,     \* position of h
          posdef,   \* the position is determined (after open(APPEND) not before the first write or seek)
          feof,     \* end() of h
          ferr,     \* error() of h
          dirty,    \* h holds data that may not be on disk yet
          last      \* RW: "r" / "w" after a read / write without a seek since, else "n"
fvars == <<exists, fmode, fpos, posdef, feof, ferr, dirty, last>>
allvars == <<vars, fvars>>

NoFile == <<-1>>
NoFiles == {NoFile}      \* (value of InitFiles in trace validation)
Zeros(n) == [i \in 1..n |-> 0]
\* d written at position pos of b
Overlay(b, pos, d) == IF d = <<>> THEN b
                      ELSE LET base == IF pos > Len(b) THEN b \o Zeros(pos - Len(b)) ELSE b
                           IN SubSeq(base, 1, pos) \o d \o SubSeq(base, pos + Len(d) + 1, Len(base))
\* a small non-negative number as an int32 bit pattern (most significant byte first) and back
Int32(n) == <<0, 0, n \div 256, n % 256>>
IsSmall32(v) == v[1] = 0 /\ v[2] = 0
Num32(v) == v[3] * 256 + v[4]

Open == fmode # "closed"
Rest == IF fpos >= Len(out) THEN 0 ELSE Len(out) - fpos
FSame == UNCHANGED <<rorder, pool>>

FInit == /\ \E f \in InitFiles : /\ exists = (f # NoFile)
                                 /\ out = (IF f = NoFile THEN <<>> ELSE f)
                                 /\ hist = (IF KeepHist THEN <<[op |-> "init", x |-> (f # NoFile), d |-> (IF f = NoFile THEN <<>> ELSE f)]>> ELSE <<>>)
         /\ worder = "NATIVE" /\ rorder = "NATIVE" /\ hz = {} /\ pool = <<>>
         /\ fmode = "closed" /\ fpos = 0 /\ posdef = TRUE /\ feof = FALSE /\ ferr = FALSE /\ dirty = FALSE /\ last = "n"

-------------------------------------------------------------------------------
FOpen(m) ==
    /\ fmode = "closed" /\ m \in {"r", "w", "a", "rw"}
    /\ UNCHANGED worder /\ FSame
    /\ IF m \in {"r", "rw"} /\ ~exists
       THEN UNCHANGED <<out, fvars>> /\ Log([op |-> "open", m |-> m, r |-> FALSE], {})
       ELSE /\ out' = (IF m = "w" THEN <<>> ELSE out) /\ exists' = TRUE
            /\ fmode' = m /\ fpos' = 0 /\ posdef' = (m # "a") /\ feof' = FALSE /\ ferr' = FALSE /\ dirty' = FALSE /\ last' = "n"
            /\ Log([op |-> "open", m |-> m, r |-> TRUE], {})
FClose == /\ Open
          /\ fmode' = "closed" /\ fpos' = 0 /\ posdef' = TRUE /\ feof' = FALSE /\ ferr' = FALSE /\ dirty' = FALSE /\ last' = "n"
          /\ UNCHANGED <<worder, out, exists>> /\ FSame
          /\ Log([op |-> "close"], {})
\* setEndian at any time, open or not: affects only what is written / read afterwards
FSetOrder(o) == SetOrder(o) /\ UNCHANGED fvars

\* the bytes d go to the file at the position (at the end in APPEND mode)
CanWrite == fmode \in {"w", "a", "rw"} /\ (fmode = "rw" => last # "r") /\ (fmode # "a" => posdef)
Put(d) == /\ out' = (IF fmode = "a" THEN out \o d ELSE Overlay(out, fpos, d))
          /\ fpos' = (IF d = <<>> THEN fpos ELSE IF fmode = "a" THEN Len(out) + Len(d) ELSE fpos + Len(d))
          /\ posdef' = (posdef \/ d # <<>>)
          /\ dirty' = (dirty \/ d # <<>>)
          /\ last' = (IF fmode = "rw" THEN "w" ELSE "n")
          /\ UNCHANGED <<worder, exists, fmode, feof, ferr>> /\ FSame
FWrite(t, v)      == /\ CanWrite /\ Len(v) = Size(t) /\ Put(ScalarBytes(v, worder))
                     /\ Log([op |-> "w", t |-> t, v |-> v, o |-> worder, src |-> 0], {})
FWriteArray(t, a) == /\ CanWrite /\ {i \in 1..Len(a) : Len(a[i]) # Size(t)} = {} /\ Put(ArrayBytes(a, worder))
                     /\ Log([op |-> "wa", t |-> t, a |-> a, o |-> worder, src |-> 0], {})
FWriteString(s)   == /\ CanWrite /\ Put(s)
                     /\ Log([op |-> "ws", s |-> s, o |-> worder, src |-> 0], {})
FWriteRaw(d)      == /\ CanWrite /\ Put(d)
                     /\ Log([op |-> "wr", d |-> d, r |-> Len(d)], {})
\* the caller's side of the String convention: h << int(s.length()) << s
FWriteLenString(s) == /\ CanWrite /\ Len(s) < 65536 /\ Put(ScalarBytes(Int32(Len(s)), worder) \o s)
                      /\ Log([op |-> "wls", s |-> s, o |-> worder], {})
\* << / write() on a file opened for reading: nothing is written, write() returns 0, error() is true from then on
FWriteDenied(d, typed) == /\ fmode = "r" /\ d # <<>>
                          /\ ferr' = TRUE
                          /\ UNCHANGED <<worder, out, exists, fmode, fpos, posdef, feof, dirty, last>> /\ FSame
                          /\ Log([op |-> "wdenied", d |-> d, typed |-> typed, r |-> 0], {})

CanRead == fmode \in {"r", "rw"} /\ (fmode = "rw" => last # "w") /\ posdef
Consume(k, hitend) == /\ fpos' = fpos + k
                      /\ feof' = (feof \/ hitend)
                      /\ last' = (IF fmode = "rw" THEN "r" ELSE "n")
                      /\ UNCHANGED <<worder, out, exists, fmode, posdef, ferr, dirty>> /\ FSame
\* >> x / read<T>(): a value when sizeof(T) bytes are left; otherwise what is left is consumed, end() becomes true and the
\* value is not specified (ok = FALSE: the replayer and the trace specification ignore it; likewise a bool read from a byte
\* other than 0 and 1, which no bool was ever written as)
FRead(t) == /\ CanRead
            /\ IF Size(t) <= Rest
               THEN /\ Consume(Size(t), FALSE)
                    /\ Log([op |-> "r", t |-> t, ok |-> (t # "bool" \/ out[fpos + 1] \in {0, 1}), v |-> Assemble(SubSeq(out, fpos + 1, fpos + Size(t)), worder), o |-> worder, eof |-> feof], {})
               ELSE /\ Consume(Rest, TRUE)
                    /\ Log([op |-> "r", t |-> t, ok |-> FALSE, v |-> <<>>, o |-> worder, eof |-> TRUE], {})
\* read(p, n)
FReadRaw(n) == /\ CanRead /\ n >= 0
               /\ LET k == IF n <= Rest THEN n ELSE Rest
                  IN /\ Consume(k, n > Rest)
                     /\ Log([op |-> "rr", n |-> n, r |-> SubSeq(out, fpos + 1, fpos + k), eof |-> (feof \/ n > Rest)], {})
\* >> String: an int32 length L in the order in force, then L bytes.  On well-formed input (wf) that is the inverse of
\* h << int(n) << s.  On anything else the String must still be a String that holds bytes of the file and nothing else: no
\* length there (fewer than 4 bytes left) or a negative one -> the empty string; fewer than L bytes left -> those bytes, and
\* end() is true (as for read(p, n)).
LenHere == Assemble(SubSeq(out, fpos + 1, fpos + 4), worder)
Neg32(v) == v[1] >= 128
Num32All(v) == ((v[1] * 256 + v[2]) * 256 + v[3]) * 256 + v[4]      \* (for v[1] < 128: fits TLC's integers)
FReadLenString ==
    /\ CanRead
    /\ IF Rest < 4
       THEN /\ Consume(Rest, TRUE)
            /\ Log([op |-> "rls", r |-> <<>>, o |-> worder, eof |-> TRUE, wf |-> FALSE], {})
       ELSE IF Neg32(LenHere)
       THEN /\ Consume(4, FALSE)
            /\ Log([op |-> "rls", r |-> <<>>, o |-> worder, eof |-> feof, wf |-> FALSE], {})
       ELSE LET n == Num32All(LenHere)
                k == IF n <= Rest - 4 THEN n ELSE Rest - 4
            IN /\ Consume(4 + k, n > Rest - 4)
               /\ Log([op |-> "rls", r |-> SubSeq(out, fpos + 5, fpos + 4 + k), o |-> worder, eof |-> (feof \/ n > Rest - 4), wf |-> (n <= Rest - 4)], {})
\* >> / read() on a file opened for writing only: nothing is delivered (read() returns 0), error() is true from then on
FReadDenied(n, typed) == /\ fmode \in {"w", "a"} /\ n > 0
                         /\ ferr' = TRUE
                         /\ UNCHANGED <<worder, out, exists, fmode, fpos, posdef, feof, dirty, last>> /\ FSame
                         /\ Log([op |-> "rdenied", n |-> n, typed |-> typed, r |-> 0], {})

SeekTarget(off, from) == IF from = "start" THEN off ELSE IF from = "here" THEN fpos + off ELSE Len(out) + off
FSeek(off, from) ==
    /\ Open /\ from \in {"start", "here", "end"} /\ (from = "here" => posdef)
    /\ SeekTarget(off, from) >= 0
    /\ fpos' = SeekTarget(off, from) /\ posdef' = TRUE /\ feof' = FALSE /\ last' = "n" /\ dirty' = FALSE
    /\ UNCHANGED <<worder, out, exists, fmode, ferr>> /\ FSame
    /\ Log([op |-> "seek", off |-> off, from |-> from], {})
Query(rec) == UNCHANGED <<worder, out, fvars>> /\ FSame /\ Log(rec, {})
FPosition == Open /\ posdef /\ Query([op |-> "pos", r |-> fpos])
FEnd      == Open /\ Query([op |-> "end", r |-> feof])
FError    == Open /\ Query([op |-> "err", r |-> ferr])
FFlush    == /\ fmode \in {"w", "a", "rw"} /\ last # "r"
             /\ dirty' = FALSE /\ last' = "n"
             /\ UNCHANGED <<worder, out, exists, fmode, fpos, posdef, feof, ferr>> /\ FSame
             /\ Log([op |-> "flush"], {})

(* other objects on the path *)
Visible == ~dirty
OContent  == exists /\ Visible /\ Query([op |-> "ocontent", r |-> out])
OSize     == Visible /\ Query([op |-> "osize", r |-> IF exists THEN Len(out) ELSE -1])
OFirst(n) == exists /\ Visible /\ n >= 0 /\ Query([op |-> "ofirst", n |-> n, r |-> SubSeq(out, 1, IF n <= Len(out) THEN n ELSE Len(out))])
\* a second File object on the path, opened for reading while h may still be open (after h has flushed): it has its own
\* position and its own byte order:  File g(path, File::READ); g.setEndian(o); g.seek(off); g >> x; g.end()
ORead(off, t, o) == /\ exists /\ Visible /\ off >= 0 /\ o \in Orders
                    /\ LET rest == IF off >= Len(out) THEN 0 ELSE Len(out) - off
                           full == Size(t) <= rest
                       IN Query([op |-> "oread", off |-> off, t |-> t, o |-> o,
                                 ok |-> (full /\ (t # "bool" \/ out[off + 1] \in {0, 1})),
                                 v |-> (IF full THEN Assemble(SubSeq(out, off + 1, off + Size(t)), o) ELSE <<>>),
                                 eof |-> ~full])
OPut(d)   == /\ fmode = "closed"
             /\ out' = d /\ exists' = TRUE
             /\ UNCHANGED <<worder, fmode, fpos, posdef, feof, ferr, dirty, last>> /\ FSame
             /\ Log([op |-> "oput", d |-> d], {})

-------------------------------------------------------------------------------
(* model checking *)
FCanStep == Len(hist) <= MaxOps
PrevOp == hist[Len(hist)].op
Fits(n) == (IF fmode = "a" \/ ~posdef THEN Len(out) ELSE IF fpos > Len(out) THEN fpos ELSE Len(out)) + n <= 24
MCFOpen        == FCanStep /\ \E m \in {"r", "w", "a", "rw"} : FOpen(m)
MCFClose       == FCanStep /\ FClose
MCFSetOrder    == FCanStep /\ \E o \in Orders : o # worder /\ FSetOrder(o)
MCFWrite       == FCanStep /\ \E t \in ScalarTypes : \E k \in 1..NVals : k <= NSamples(t) /\ Fits(Size(t)) /\ FWrite(t, Samples(t)[k])
MCFWriteArray  == FCanStep /\ \E t \in ArrayTypes, n \in ArrayLens : Fits(n * Size(t)) /\ FWriteArray(t, SampleArray(t, n, Len(hist)))
MCFWriteString == FCanStep /\ \E s \in Strings : Fits(Len(s)) /\ FWriteString(s)
MCFWriteRaw    == FCanStep /\ \E d \in RawChunks : Fits(Len(d)) /\ FWriteRaw(d)
MCFWriteLenStr == FCanStep /\ \E s \in Strings : Fits(Len(s) + 4) /\ FWriteLenString(s)
MCFWriteDenied == FCanStep /\ \E d \in RawChunks : \E typed \in BOOLEAN : FWriteDenied(d, typed)
MCFRead        == FCanStep /\ \E t \in ReadTypes : FRead(t)
MCFReadRaw     == FCanStep /\ \E n \in ByteCounts : FReadRaw(n)
MCFReadLenStr  == FCanStep /\ FReadLenString
MCFReadDenied  == FCanStep /\ \E typed \in BOOLEAN : FReadDenied(2, typed)
MCFSeek        == FCanStep /\ \E s \in Seeks : SeekTarget(s[1], s[2]) <= 24 /\ FSeek(s[1], s[2])
MCFPosition    == FCanStep /\ PrevOp \notin {"pos", "end", "err", "osize", "ocontent", "ofirst"} /\ FPosition
MCFEnd         == FCanStep /\ PrevOp \notin {"pos", "end", "err", "osize", "ocontent", "ofirst"} /\ FEnd
MCFError       == FCanStep /\ PrevOp \in {"wdenied", "rdenied", "seek", "open"} /\ FError
MCFFlush       == FCanStep /\ dirty /\ FFlush
MCOContent     == FCanStep /\ PrevOp \notin {"pos", "end", "err", "osize", "ocontent", "ofirst"} /\ OContent
MCOSize        == FCanStep /\ PrevOp \notin {"pos", "end", "err", "osize", "ocontent", "ofirst"} /\ OSize
MCOFirst       == FCanStep /\ PrevOp \notin {"pos", "end", "err", "osize", "ocontent", "ofirst"} /\ OFirst(3)
MCOPut         == FCanStep /\ \E d \in RawChunks : OPut(d)
MCORead        == FCanStep /\ PrevOp \notin {"pos", "end", "err", "osize", "ocontent", "ofirst", "oread"} /\
                  \E off \in {0, 6, 9} : \E t \in {"i16", "u32"} : \E o \in {"BIG", "NATIVE"} : ORead(off, t, o)
FNext == \/ MCFOpen \/ MCFClose \/ MCFSetOrder \/ MCFWrite \/ MCFWriteArray \/ MCFWriteString \/ MCFWriteRaw \/ MCFWriteLenStr
         \/ MCFWriteDenied \/ MCFRead \/ MCFReadRaw \/ MCFReadLenStr \/ MCFReadDenied \/ MCFSeek \/ MCFPosition \/ MCFEnd
         \/ MCFError \/ MCFFlush \/ MCOContent \/ MCOSize \/ MCOFirst \/ MCOPut \/ MCORead
FSpec == FInit /\ [][FNext]_allvars

-------------------------------------------------------------------------------
(* properties *)
FTypeOK == /\ worder \in Orders
           /\ {i \in 1..Len(out) : out[i] \notin Byte} = {}
           /\ fmode \in {"closed", "r", "w", "a", "rw"} /\ fpos \in Nat /\ last \in {"n", "r", "w"}
           /\ (~exists => out = <<>> /\ fmode = "closed")
           /\ (fmode = "closed" => fpos = 0 /\ ~feof /\ ~ferr /\ ~dirty)

NewR == hist'[Len(hist')]
Stepped == hist' # hist /\ hist' # <<>>
\* a typed write changes exactly sizeof(T) (length x sizeof(T)) bytes at the position and nothing else
LocalWrite == [][(Stepped /\ NewR.op \in {"w", "wa", "ws", "wr", "wls"}) =>
                    LET at == IF fmode = "a" THEN Len(out) ELSE fpos
                        n  == IF out' = out /\ fpos' = fpos THEN 0 ELSE fpos' - at
                    IN /\ n >= 0
                       /\ (NewR.op = "w" => n = Size(NewR.t))
                       /\ (NewR.op = "wa" => n = Len(NewR.a) * Size(NewR.t))
                       /\ (n > 0 => /\ Len(out') = (IF at + n > Len(out) THEN at + n ELSE Len(out))
                                    /\ {i \in 1..Len(out) : (i <= at \/ i > at + n) /\ out'[i] # out[i]} = {})
                       /\ (n = 0 => out' = out)]_allvars
\* write then seek back and read with the same type in the same byte order returns the value: stated on the state -
\* whenever the sizeof(T) bytes at the position are those a value v was just written with, FRead delivers v
ReadBackAtPos == [][(Stepped /\ NewR.op = "w" /\ fmode # "a") =>
                       Assemble(SubSeq(out', fpos + 1, fpos + Size(NewR.t)), worder) = NewR.v]_allvars
\* reading never changes the file, the byte order or the mode; it moves the position forward by at most what was asked for
ReadOnlyReads == [][(Stepped /\ NewR.op \in {"r", "rr", "rls", "rdenied", "pos", "end", "err", "ocontent", "osize", "ofirst", "oread"}) =>
                       (out' = out /\ worder' = worder /\ fmode' = fmode /\ fpos' >= fpos /\ fpos' <= (IF fpos > Len(out) THEN fpos ELSE Len(out)))]_allvars
\* a short typed read is flagged: end() is true after it (and a complete one never sets it)
ShortReadFlagged == [][(Stepped /\ NewR.op = "r") => (IF fpos' - fpos = Size(NewR.t) THEN feof' = feof ELSE feof')]_allvars
\* a file opened for reading is never changed through h; a change of byte order changes nothing that exists
ReadModeProtects == [][(fmode = "r" /\ fmode' = "r") => out' = out]_allvars
FOrderOnlyLater == [][(Stepped /\ NewR.op = "set") => (out' = out /\ UNCHANGED fvars)]_allvars
\* the String convention is its own inverse: right after h << int(n) << s, seeking back by 4 + n and reading a String gives s
LenStringInverse == [][(Stepped /\ NewR.op = "wls" /\ fmode # "a") =>
                          LET l == Assemble(SubSeq(out', fpos + 1, fpos + 4), worder)
                          IN IsSmall32(l) /\ Num32(l) = Len(NewR.s) /\ SubSeq(out', fpos + 5, fpos + 4 + Num32(l)) = NewR.s]_allvars

FView == <<worder, out, Len(hist), IF hist = <<>> THEN "" ELSE hist[Len(hist)].op, fvars>>
FEmit == PrintT(ToJson([k |-> "file", hist |-> hist', out |-> out', x |-> exists']))
===============================================================================
