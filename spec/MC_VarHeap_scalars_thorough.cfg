SPECIFICATION Spec
CONSTANTS
 NR = 2
 MaxNodes = 3
 MaxDepth = 0
 MaxItems = 2
 ScalarIds = {1,2,3,4,5,6,7,8,9,10,11,12,13,14,15,16,17,18}
 KeyIds = {1}
 MaxOps = 3
 KeepHist = TRUE
VIEW View
ACTION_CONSTRAINT Emit
INVARIANTS TypeOK RcOK NoDangling Acyclic ObjSorted
PROPERTIES AssignOK ScalarOK CloneOK Independent
CHECK_DEADLOCK FALSE
