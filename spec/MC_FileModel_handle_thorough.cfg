SPECIFICATION Spec
CONSTANTS
 BinChunks <- HBinT
 TextChunks <- HTxtT
 ReadSizes = {0, 1, 2, 7}
 ShapeRuns <- NoRuns
 ShapeSegs = 0
 EncScalars <- NoScalars
 EncMaxLen = 0
 MaxLen = 8
 MaxOps = 6
 TmpPaths = {"p"}
 QueryKinds <- AllKinds
 KeepHist = TRUE
VIEW View
ACTION_CONSTRAINT Emit
INVARIANTS TypeOK HandleOK LinesOK
PROPERTIES Independence CopyExact QueryFresh
CHECK_DEADLOCK FALSE
