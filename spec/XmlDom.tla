------------------------------- MODULE XmlDom -------------------------------
(* C07 (growth) - the editing and query API of asl::Xml (include/asl/Xml.h) on top of the element trees of XmlText.

   State.  Xml objects are reference-counted handles.  hv[h] is the node that handle h designates (0: no node - an
   unset variable or the null object that parent() returns for a root).  nd[n] is a node: an element ("e": tag n,
   attributes a, ordered children c = node ids) or a text node ("t": text n) or unused ("f").  Children are held by
   reference, so a node can be a child of two elements or twice of one (operator<< does not copy): the heap is a DAG
   and every edit is visible through every handle and every container of the node.  A node lives exactly as long as
   it is reachable from a handle (reference counting without cycles; histories that would create a cycle are not
   generated - the library would leak and recurse for ever).

   parent() is specified as the inverse of children(): the element that contains the node, the null object if no
   element does ("Returns the parent element of this element (a null Xml object if it is the root)").  It is left
   unconstrained (amb) for a node that was attached somewhere while it was already a child: the documentation does
   not say which of the containers is "the" parent, and the node stays ambiguous until no element contains it.

   Every public call is one action; hist records the calls, hz the spec-level hazard tags of a history:
     ChildWithoutParent   put(), operator<<(String), Xml(tag, value), Xml(tag, children) attach children without
                          setting their parent link
     StaleParent          remove(int), clear(), put() detach children that stay referenced without resetting it
     DanglingParent       an element is destroyed while a child of it stays referenced (the raw parent pointer dangles);
                          also the root that Xml::decode returns: it was the child of the decoder's local anonymous root
     AssignFromOwnTree    x = x, x = x.child(i) while x holds the only reference: NodeBase::operator= releases first
   (repaired by fixes/C07-parent-links.diff and fixes/C07-assign-own-tree.diff; the tags stay as documentation and match
   nothing once the fixes are in).  A fifth finding is not a property of a history but of one query: children(tag) on an
   element without children reads past the empty child array (EnumerateNoChildren, fixes/C07-enumerate-no-children.diff);
   while it is open the replayer and the recorder do not enumerate childless elements.

   Queries are operators (TextOf, IntOf, ChildrenByTag, FindAll, Pre, ParentOf, AttrSeq, Unfold): R evaluates all of
   them on every live handle of every reached state (Emit), V checks the values the real calls returned.
   Interaction with the codec: Unfold gives the XmlText tree a handle denotes; EditRoundTrip states that its
   serialization is recognized as that tree again (up to Normalize) after any history of edits, and the action Reparse
   continues a history on the decoded copy.

   Bindings:  R  MC_XmlDom_*.cfg, ACTION_CONSTRAINT Emit -> harness/c07_dom_replay.cpp
              V  Trace_XmlDom.tla validates edit scripts recorded by harness/c07_dom_record.cpp              *)
EXTENDS Naturals, Sequences, FiniteSets, TLC, Json

CONSTANTS NH,        \* handles are 1..NH
          MaxNodes,  \* node ids are 1..MaxNodes
          TagSeq,    \* element names (sequence of byte strings)
          ANames,    \* attribute names (sequence of byte strings, in the order of asl::Map = byte order)
          AVals,     \* attribute values
          DTexts,    \* texts
          MaxKids,   \* children are added only below this number
          MaxSize,   \* ... and only while the unfolded tree stays within this number of nodes
          MaxOps,    \* bound on the history length
          Ops,       \* names of the enabled actions
          KeepHist   \* TRUE: generation (whole history, canonical choice of new handles); FALSE: trace validation

VARIABLES hv, nd, amb, hist, hz
vars == <<hv, nd, amb, hist, hz>>

X == INSTANCE XmlText WITH Names <- {}, AttrNames <- {}, Values <- {}, Texts <- {}, Variants <- {}, Comments <- {},
                           PIs <- {}, Doctypes <- {}, Decls <- {}, TopWs <- {}, MaxDepth <- 0, MaxKids <- 0,
                           MaxAttrs <- 0, MaxTok <- 0, MaxBadTail <- 0,
                           text <- <<>>, stack <- <<>>, phase <- "pre", root <- 0, ntok <- 0, hz <- {}, act <- "Init"

H       == 1..NH
N       == 1..MaxNodes
NA      == Len(ANames)
Tags    == {TagSeq[i] : i \in 1..Len(TagSeq)}
Absent  == <<0>>                                       \* no such attribute (values never contain NUL)
NoAttrs == [i \in 1..NA |-> Absent]
Free    == [k |-> "f", n |-> <<>>, a |-> NoAttrs, c |-> <<>>]
U       == 9999                                        \* "unconstrained" in observations

-------------------------------------------------------------------------------
(* sequences *)
RECURSIVE SumSeq(_)
SumSeq(s) == IF s = <<>> THEN 0 ELSE Head(s) + SumSeq(Tail(s))
DropAt(s, i)      == SubSeq(s, 1, i - 1) \o SubSeq(s, i + 1, Len(s))           \* 1-based i
InsertAt(s, k, v) == SubSeq(s, 1, k) \o <<v>> \o SubSeq(s, k + 1, Len(s))      \* 0-based k
FirstIdx(s, P(_)) == IF \E i \in 1..Len(s) : P(s[i]) THEN CHOOSE i \in 1..Len(s) : P(s[i]) /\ \A j \in 1..(i - 1) : ~P(s[j]) ELSE 0
Ids == [i \in N |-> i]

(* the heap *)
Kids(ndx, n) == ndx[n].c
RECURSIVE DescOf(_, _)                                  \* n and everything below it
DescOf(ndx, n) == {n} \cup UNION {DescOf(ndx, ndx[n].c[i]) : i \in 1..Len(ndx[n].c)}
Reach(hvx, ndx) == UNION {DescOf(ndx, hvx[h]) : h \in {x \in H : hvx[x] # 0}}
Occ(ndx, n) == SumSeq([p \in N |-> Cardinality({i \in 1..Len(ndx[p].c) : ndx[p].c[i] = n})])
Containers(ndx, n) == {p \in N : \E i \in 1..Len(ndx[p].c) : ndx[p].c[i] = n}
RECURSIVE USize(_, _)                                   \* nodes of the unfolded tree
USize(ndx, n) == 1 + SumSeq([i \in 1..Len(ndx[n].c) |-> USize(ndx, ndx[n].c[i])])
FreeSeq(ndx) == SelectSeq(Ids, LAMBDA i : ndx[i].k = "f")
RCount(n) == Cardinality({h \in H : hv[h] = n}) + Occ(nd, n)

(* attributes: a function over the indices of ANames; as the sorted sequence of pairs XmlText trees carry *)
AIdx(name) == IF \E i \in 1..NA : ANames[i] = name THEN CHOOSE i \in 1..NA : ANames[i] = name ELSE 0
AttrSeq(a) == LET idx == SelectSeq([i \in 1..NA |-> i], LAMBDA i : a[i] # Absent)
              IN [j \in 1..Len(idx) |-> <<ANames[idx[j]], a[idx[j]]>>]
AttrFun(ps) == [i \in 1..NA |-> IF \E j \in 1..Len(ps) : ps[j][1] = ANames[i]
                                 THEN ps[CHOOSE j \in 1..Len(ps) : ps[j][1] = ANames[i]][2] ELSE Absent]

(* the XmlText tree a node denotes *)
RECURSIVE Unfold(_, _)
Unfold(ndx, n) == IF ndx[n].k = "t" THEN X!Txt(ndx[n].n)
                  ELSE X!Elem(ndx[n].n, AttrSeq(ndx[n].a), [i \in 1..Len(ndx[n].c) |-> Unfold(ndx, ndx[n].c[i])])
RECURSIVE TSize(_)
TSize(t) == 1 + SumSeq([i \in 1..Len(t.c) |-> TSize(t.c[i])])
\* what Xml::decode returns for the serialization of t: adjacent text merged, whitespace-only text dropped
RECURSIVE Canon(_)
Canon(e) == IF e.k = "t" THEN e
            ELSE LET kept == SelectSeq(X!MergeFrom(e.c, 1, <<>>), LAMBDA x : ~(x.k = "t" /\ X!WsOnly(x.n)))
                 IN X!Elem(e.n, e.a, [i \in 1..Len(kept) |-> Canon(kept[i])])
\* Xml::encode writes it as a document: an element, every element below it has a name (encode skips nameless elements)
RECURSIVE NamedTree(_)
NamedTree(t) == IF t.k = "t" THEN TRUE ELSE X!IsName(t.n) /\ \A i \in 1..Len(t.c) : NamedTree(t.c[i])
Encodable(t) == t.k = "e" /\ NamedTree(t)
\* fresh nodes for the tree t: ids F[j], F[j+1], ... in document order; a set of [id, rec]
RECURSIVE Place(_, _, _)
Place(t, F, j) ==
    LET sizes == [i \in 1..Len(t.c) |-> TSize(t.c[i])]
        off(i) == j + 1 + SumSeq(SubSeq(sizes, 1, i - 1))
    IN {[id |-> F[j], rec |-> [k |-> t.k, n |-> t.n, a |-> AttrFun(t.a), c |-> [i \in 1..Len(t.c) |-> F[off(i)]]]]}
       \cup UNION {Place(t.c[i], F, off(i)) : i \in 1..Len(t.c)}
WithNodes(ndx, P) == [n \in N |-> IF \E p \in P : p.id = n THEN (CHOOSE p \in P : p.id = n).rec ELSE ndx[n]]

-------------------------------------------------------------------------------
(* queries - the reference semantics of the read-only calls *)
\* parent(): 0 = the null object, U = unconstrained
ParentOf(ndx, ambx, n) == IF n \in ambx THEN U
                          ELSE IF Containers(ndx, n) = {} THEN 0 ELSE CHOOSE p \in Containers(ndx, n) : TRUE
\* text(): "the text content of this element (the first child text element)"; the text of a text node; empty without
\* children.  Unconstrained when the first child is an element (the code then descends into it, the documentation
\* suggests it would not).
TextOf(ndx, n) == IF ndx[n].k = "t" THEN [def |-> TRUE, v |-> ndx[n].n]
                  ELSE IF ndx[n].c = <<>> THEN [def |-> TRUE, v |-> <<>>]
                  ELSE IF ndx[ndx[n].c[1]].k = "t" THEN [def |-> TRUE, v |-> ndx[ndx[n].c[1]].n]
                  ELSE [def |-> FALSE, v |-> <<>>]
\* value<int>(deflt): the trimmed text as a decimal number, deflt if it is empty; constrained for up to 6 digits
IsSp(c) == c \in {32, 9, 10, 13}
Trimmed(s) == LET keep == {i \in 1..Len(s) : ~IsSp(s[i])} IN
              IF keep = {} THEN <<>>
              ELSE SubSeq(s, CHOOSE i \in keep : \A j \in keep : i <= j, CHOOSE i \in keep : \A j \in keep : i >= j)
IntOf(ndx, n, deflt) ==
    LET t == TextOf(ndx, n)
        s == Trimmed(t.v)
    IN IF ~t.def \/ Len(s) > 6 \/ \E i \in 1..Len(s) : s[i] \notin 48..57 THEN [def |-> FALSE, v |-> 0]
       ELSE [def |-> TRUE, v |-> IF s = <<>> THEN deflt ELSE X!NumVal(s, 10, 0)]
\* children(tag), count(tag), operator()(tag, i): the children that are elements with that name, in order
IsNamed(ndx, m, t) == ndx[m].k = "e" /\ ndx[m].n = t
ChildrenByTag(ndx, n, t) == SelectSeq(ndx[n].c, LAMBDA m : IsNamed(ndx, m, t))
\* traverse(): the element and everything below it; find(pred), findOne(pred): what is below it, in document order
RECURSIVE Pre(_, _)
Pre(ndx, n) == <<n>> \o X!Cat([i \in 1..Len(ndx[n].c) |-> Pre(ndx, ndx[n].c[i])])
FindAll(ndx, n, t) == SelectSeq(Tail(Pre(ndx, n)), LAMBDA m : IsNamed(ndx, m, t))

-------------------------------------------------------------------------------
Init == /\ hv = [h \in H |-> 0]
        /\ nd = [n \in N |-> Free]
        /\ amb = {}
        /\ hist = <<>>
        /\ hz = {}

Log(rec, tags) == /\ hist' = IF KeepHist THEN Append(hist, rec) ELSE <<rec>>
                  /\ hz' = IF KeepHist THEN hz \cup tags ELSE tags

\* end of every call: nodes that no handle reaches any more are released (rm: children detached by a call that does
\* not reset their parent link in the code as found)
Commit(hv2, nd2, amb2, rm, rec, tags) ==
    LET live  == Reach(hv2, nd2)
        freed == {n \in N : nd2[n].k # "f" /\ n \notin live}
        nd3   == [n \in N |-> IF n \in live THEN nd2[n] ELSE Free]
        dang  == \E f \in freed : \E i \in 1..Len(nd2[f].c) : nd2[f].c[i] \in live
        stale == \E m \in rm : m \in live
    IN /\ hv' = hv2
       /\ nd' = nd3
       /\ amb' = {n \in amb2 \cap live : Occ(nd3, n) > 0}
       /\ Log(rec, tags \cup (IF dang THEN {"DanglingParent"} ELSE {}) \cup (IF stale THEN {"StaleParent"} ELSE {}))

On(op)   == op \in Ops
LiveH(h) == h \in H /\ hv[h] # 0
ElemH(h) == IF h \in H THEN (IF hv[h] # 0 THEN nd[hv[h]].k = "e" ELSE FALSE) ELSE FALSE
NK(h)    == Len(nd[hv[h]].c)
\* a handle that receives a new binding: when generating, new variables are taken in order (handles are interchangeable)
NewH(g)  == IF g \in H THEN (IF hv[g] # 0 THEN FALSE ELSE (IF KeepHist THEN \A x \in H : hv[x] = 0 => g <= x ELSE TRUE)) ELSE FALSE
AnyH(g)  == IF g \in H THEN (IF hv[g] # 0 THEN TRUE ELSE NewH(g)) ELSE FALSE
Room(k)  == Len(FreeSeq(nd)) >= k
F1       == FreeSeq(nd)[1]
F2       == FreeSeq(nd)[2]
Bind(g, n) == [hv EXCEPT ![g] = n]
\* attaching node m somewhere: ambiguous from now on if an element already contains it
Amb1(m)  == IF Occ(nd, m) > 0 THEN amb \cup {m} ELSE amb
NoCycle(h, m) == hv[h] \notin DescOf(nd, m)
Fits(h, m) == NK(h) < MaxKids /\ USize(nd, hv[h]) + USize(nd, m) <= MaxSize
ElemRec(t, a, c) == [k |-> "e", n |-> t, a |-> a, c |-> c]
TextRec(x)       == [k |-> "t", n |-> x, a |-> NoAttrs, c |-> <<>>]

(* construction *)
NewElem(g, t) == /\ On("newElem") /\ NewH(g) /\ Room(1)
                 /\ Commit(Bind(g, F1), [nd EXCEPT ![F1] = ElemRec(t, NoAttrs, <<>>)], amb, {},
                           [op |-> "newElem", g |-> g, t |-> t], {})
NewText(g, x) == /\ On("newText") /\ NewH(g) /\ Room(1)
                 /\ Commit(Bind(g, F1), [nd EXCEPT ![F1] = TextRec(x)], amb, {}, [op |-> "newText", g |-> g, x |-> x], {})
\* Xml(tag, value): an element with one text child
NewVal(g, t, x) == /\ On("newVal") /\ NewH(g) /\ Room(2)
                   /\ Commit(Bind(g, F1), [nd EXCEPT ![F1] = ElemRec(t, NoAttrs, <<F2>>), ![F2] = TextRec(x)], amb, {},
                             [op |-> "newVal", g |-> g, t |-> t, x |-> x], {"ChildWithoutParent"})
\* Xml(tag, Map<>(name, value))
NewAttr(g, t, ai, v) == /\ On("newAttr") /\ NewH(g) /\ Room(1) /\ ai \in 1..NA
                        /\ Commit(Bind(g, F1), [nd EXCEPT ![F1] = ElemRec(t, [NoAttrs EXCEPT ![ai] = v], <<>>)], amb, {},
                                  [op |-> "newAttr", g |-> g, t |-> t, an |-> ANames[ai], v |-> v], {})
\* Xml(tag, Array<Xml>): the elements designated by h1 (and h2, unless 0) become the children - shared, not copied
NewKids(g, t, h1, h2) ==
    /\ On("newKids") /\ NewH(g) /\ Room(1) /\ LiveH(h1) /\ (IF h2 = 0 THEN TRUE ELSE LiveH(h2))
    /\ LET ks == IF h2 = 0 THEN <<hv[h1]>> ELSE <<hv[h1], hv[h2]>>
           am == {m \in {ks[i] : i \in 1..Len(ks)} : Occ(nd, m) > 0} \cup (IF Len(ks) = 2 /\ ks[1] = ks[Len(ks)] THEN {ks[1]} ELSE {})
       IN /\ 1 + SumSeq([i \in 1..Len(ks) |-> USize(nd, ks[i])]) <= MaxSize
          /\ Commit(Bind(g, F1), [nd EXCEPT ![F1] = ElemRec(t, NoAttrs, ks)], amb \cup am, {},
                    [op |-> "newKids", g |-> g, t |-> t, h |-> h1, h2 |-> h2], {"ChildWithoutParent"})

(* handles *)
CopyHandle(h, g) == /\ On("copy") /\ LiveH(h) /\ NewH(g)
                    /\ Commit(Bind(g, hv[h]), nd, amb, {}, [op |-> "copy", h |-> h, g |-> g], {})
AssignHandle(h, g) == /\ On("assign") /\ LiveH(h) /\ LiveH(g)                     \* g = h: self-assignment
                      /\ Commit(Bind(g, hv[h]), nd, amb, {}, [op |-> "assign", h |-> h, g |-> g],
                                IF g = h /\ RCount(hv[h]) = 1 THEN {"AssignFromOwnTree"} ELSE {})
DropHandle(h) == /\ On("drop") /\ LiveH(h)
                 /\ Commit(Bind(h, 0), nd, amb, {}, [op |-> "drop", h |-> h], {})

(* navigation: bind g to an existing node *)
\* g = h.child(i) - child() returns a reference into h's child array
Child(h, i, g) == /\ On("child") /\ ElemH(h) /\ AnyH(g) /\ i \in 0..(NK(h) - 1)
                  /\ Commit(Bind(g, nd[hv[h]].c[i + 1]), nd, amb, {}, [op |-> "child", h |-> h, i |-> i, g |-> g],
                            IF g = h /\ RCount(hv[h]) = 1 THEN {"AssignFromOwnTree"} ELSE {})
\* g = h.parent(); the null object when nothing contains h's node (g is then without a node)
Parent(h, g) == /\ On("parent") /\ LiveH(h) /\ AnyH(g) /\ hv[h] \notin amb
                /\ Commit(Bind(g, ParentOf(nd, amb, hv[h])), nd, amb, {}, [op |-> "parent", h |-> h, g |-> g], {})
\* g = h(tag, i): the i-th child with that name, or a new element without a name
GetChild(h, t, i, g) ==
    /\ On("get") /\ ElemH(h) /\ AnyH(g)
    /\ LET cs == ChildrenByTag(nd, hv[h], t) IN
       /\ i \in 0..Len(cs)
       /\ IF i < Len(cs)
          THEN Commit(Bind(g, cs[i + 1]), nd, amb, {}, [op |-> "get", h |-> h, t |-> t, i |-> i, g |-> g, found |-> 1], {})
          ELSE /\ Room(1)
               /\ Commit(Bind(g, F1), [nd EXCEPT ![F1] = ElemRec(<<>>, NoAttrs, <<>>)], amb, {},
                         [op |-> "get", h |-> h, t |-> t, i |-> i, g |-> g, found |-> 0], {})
\* g = h.findOne(tag() == t): the first element below h with that name, in document order
FindOne(h, t, g) ==
    /\ On("findOne") /\ ElemH(h) /\ AnyH(g)
    /\ LET fs == FindAll(nd, hv[h], t) IN
       IF fs # <<>>
       THEN Commit(Bind(g, fs[1]), nd, amb, {}, [op |-> "findOne", h |-> h, t |-> t, g |-> g, found |-> 1], {})
       ELSE /\ Room(1)
            /\ Commit(Bind(g, F1), [nd EXCEPT ![F1] = ElemRec(<<>>, NoAttrs, <<>>)], amb, {},
                      [op |-> "findOne", h |-> h, t |-> t, g |-> g, found |-> 0], {})

(* editing through handle h *)
\* h << g
AppendChild(h, g) ==
    /\ On("append") /\ ElemH(h) /\ LiveH(g) /\ NoCycle(h, hv[g]) /\ Fits(h, hv[g])
    /\ Commit(hv, [nd EXCEPT ![hv[h]].c = Append(@, hv[g])], Amb1(hv[g]), {}, [op |-> "append", h |-> h, g |-> g], {})
\* h.insert(i, g), 0 <= i < numChildren()   (i = numChildren() is ignored by the code and not documented: not generated)
InsertChild(h, i, g) ==
    /\ On("insert") /\ ElemH(h) /\ LiveH(g) /\ NoCycle(h, hv[g]) /\ Fits(h, hv[g]) /\ i \in 0..(NK(h) - 1)
    /\ Commit(hv, [nd EXCEPT ![hv[h]].c = InsertAt(@, i, hv[g])], Amb1(hv[g]), {},
              [op |-> "insert", h |-> h, i |-> i, g |-> g], {})
\* h << text: extends the last child if that is a text node, else appends a new text node
AppendText(h, x) ==
    /\ On("appendText") /\ ElemH(h)
    /\ LET c == nd[hv[h]].c
           lastText == IF c = <<>> THEN FALSE ELSE nd[c[Len(c)]].k = "t"
       IN IF lastText
          THEN /\ (IF KeepHist THEN Len(nd[c[Len(c)]].n) + Len(x) <= 6 ELSE TRUE)
               /\ Commit(hv, [nd EXCEPT ![c[Len(c)]].n = @ \o x], amb, {}, [op |-> "appendText", h |-> h, x |-> x], {})
          ELSE /\ Room(1) /\ NK(h) < MaxKids /\ USize(nd, hv[h]) < MaxSize
               /\ Commit(hv, [nd EXCEPT ![hv[h]].c = Append(@, F1), ![F1] = TextRec(x)], amb, {},
                         [op |-> "appendText", h |-> h, x |-> x], {"ChildWithoutParent"})
\* h.remove(i)
RemoveAt(h, i) ==
    /\ On("removeAt") /\ ElemH(h) /\ i \in 0..(NK(h) - 1)
    /\ Commit(hv, [nd EXCEPT ![hv[h]].c = DropAt(@, i + 1)], amb, {nd[hv[h]].c[i + 1]}, [op |-> "removeAt", h |-> h, i |-> i], {})
\* h.remove(g): "removes the element if it is a child of this element" (its first occurrence)
RemoveNode(h, g) ==
    /\ On("removeNode") /\ ElemH(h) /\ LiveH(g)
    /\ LET p == FirstIdx(nd[hv[h]].c, LAMBDA m : m = hv[g]) IN
       Commit(hv, IF p = 0 THEN nd ELSE [nd EXCEPT ![hv[h]].c = DropAt(@, p)], amb, {},
              [op |-> "removeNode", h |-> h, g |-> g, found |-> IF p = 0 THEN 0 ELSE 1], {})
\* h.clear()
ClearKids(h) ==
    /\ On("clear") /\ ElemH(h)
    /\ Commit(hv, [nd EXCEPT ![hv[h]].c = <<>>], amb, {nd[hv[h]].c[i] : i \in 1..NK(h)}, [op |-> "clear", h |-> h], {})
\* h.put(value): the content becomes one new text node
PutText(h, x) ==
    /\ On("putText") /\ ElemH(h) /\ Room(1)
    /\ Commit(hv, [nd EXCEPT ![hv[h]].c = <<F1>>, ![F1] = TextRec(x)], amb, {nd[hv[h]].c[i] : i \in 1..NK(h)},
              [op |-> "putText", h |-> h, x |-> x], {"ChildWithoutParent"})
\* h.put(name, value): put(value) on the first child with that name, which is created (appended) if there is none
PutNamed(h, t, x) ==
    /\ On("putNamed") /\ ElemH(h) /\ Room(2)
    /\ LET cs == ChildrenByTag(nd, hv[h], t) IN
       IF cs # <<>>
       THEN Commit(hv, [nd EXCEPT ![cs[1]].c = <<F1>>, ![F1] = TextRec(x)], amb, {nd[cs[1]].c[i] : i \in 1..Len(nd[cs[1]].c)},
                   [op |-> "putNamed", h |-> h, t |-> t, x |-> x, found |-> 1], {"ChildWithoutParent"})
       ELSE /\ NK(h) < MaxKids /\ USize(nd, hv[h]) + 2 <= MaxSize
            /\ Commit(hv, [nd EXCEPT ![hv[h]].c = Append(@, F1), ![F1] = ElemRec(t, NoAttrs, <<F2>>), ![F2] = TextRec(x)], amb, {},
                      [op |-> "putNamed", h |-> h, t |-> t, x |-> x, found |-> 0], {"ChildWithoutParent"})
SetAttr(h, ai, v) == /\ On("setAttr") /\ ElemH(h) /\ ai \in 1..NA
                     /\ Commit(hv, [nd EXCEPT ![hv[h]].a[ai] = v], amb, {}, [op |-> "setAttr", h |-> h, an |-> ANames[ai], v |-> v], {})
RemoveAttr(h, ai) == /\ On("removeAttr") /\ ElemH(h) /\ ai \in 1..NA
                     /\ Commit(hv, [nd EXCEPT ![hv[h]].a[ai] = Absent], amb, {}, [op |-> "removeAttr", h |-> h, an |-> ANames[ai]], {})
SetTag(h, t) == /\ On("setTag") /\ ElemH(h)
                /\ Commit(hv, [nd EXCEPT ![hv[h]].n = t], amb, {}, [op |-> "setTag", h |-> h, t |-> t], {})

(* copies *)
\* g = h.clone(): "a separate copy of this element with its children, and no parent"
CloneTree(h, g) ==
    /\ On("clone") /\ LiveH(h) /\ NewH(g)
    /\ LET t == Unfold(nd, hv[h]) IN
       /\ Room(TSize(t))
       /\ Commit(Bind(g, F1), WithNodes(nd, Place(t, FreeSeq(nd), 1)), amb, {}, [op |-> "clone", h |-> h, g |-> g], {})
\* g = Xml::decode(Xml::encode(h, fmt)): a new tree, equal to h's up to Normalize (indented form: text only as sole child)
Reparse(h, g, fmt) ==
    /\ On("reparse") /\ ElemH(h) /\ NewH(g) /\ fmt \in {0, 1}
    /\ LET u == Unfold(nd, hv[h])
           t == Canon(u)
       IN /\ Encodable(u) /\ (fmt = 1 => X!SoleText(u))
          /\ Room(TSize(t))
          /\ Commit(Bind(g, F1), WithNodes(nd, Place(t, FreeSeq(nd), 1)), amb, {}, [op |-> "reparse", h |-> h, g |-> g, fmt |-> fmt],
                    {"DanglingParent"})       \* the decoder's anonymous root is destroyed, the element it returns was its child

-------------------------------------------------------------------------------
Next == /\ Len(hist) < MaxOps
        /\ \/ \E g \in H, t \in Tags : NewElem(g, t)
           \/ \E g \in H, x \in DTexts : NewText(g, x)
           \/ \E g \in H, t \in Tags, x \in DTexts : NewVal(g, t, x)
           \/ \E g \in H, t \in Tags, ai \in 1..NA, v \in AVals : NewAttr(g, t, ai, v)
           \/ \E g \in H, t \in Tags, h1 \in H, h2 \in 0..NH : NewKids(g, t, h1, h2)
           \/ \E h, g \in H : CopyHandle(h, g) \/ AssignHandle(h, g) \/ Parent(h, g) \/ AppendChild(h, g)
                              \/ RemoveNode(h, g) \/ CloneTree(h, g)
           \/ \E h \in H : DropHandle(h) \/ ClearKids(h)
           \/ \E h, g \in H, i \in 0..MaxKids : Child(h, i, g) \/ InsertChild(h, i, g)
           \/ \E h, g \in H, t \in Tags, i \in 0..MaxKids : GetChild(h, t, i, g)
           \/ \E h, g \in H, t \in Tags : FindOne(h, t, g)
           \/ \E h \in H, x \in DTexts : AppendText(h, x) \/ PutText(h, x)
           \/ \E h \in H, i \in 0..MaxKids : RemoveAt(h, i)
           \/ \E h \in H, t \in Tags, x \in DTexts : PutNamed(h, t, x)
           \/ \E h \in H, ai \in 1..NA, v \in AVals : SetAttr(h, ai, v)
           \/ \E h \in H, ai \in 1..NA : RemoveAttr(h, ai)
           \/ \E h \in H, t \in Tags : SetTag(h, t)
           \/ \E h, g \in H, fmt \in {0, 1} : Reparse(h, g, fmt)
Spec == Init /\ [][Next]_vars

-------------------------------------------------------------------------------
(* properties of the specification *)
LiveN == {n \in N : nd[n].k # "f"}
TypeOK == /\ hv \in [H -> 0..MaxNodes]
          /\ \A n \in N : /\ nd[n].k \in {"e", "t", "f"}
                          /\ \A i \in 1..Len(nd[n].c) : nd[n].c[i] \in N
                          /\ nd[n].k \in {"t", "f"} => nd[n].c = <<>> /\ nd[n].a = NoAttrs
          /\ amb \subseteq N
\* storage lives exactly as long as a handle reaches it; nothing refers to released storage
NoGarbage == /\ LiveN = Reach(hv, nd)
             /\ \A n \in N : nd[n].k = "f" => nd[n] = Free
             /\ \A h \in H : hv[h] # 0 => hv[h] \in LiveN
             /\ \A n \in LiveN : \A i \in 1..Len(nd[n].c) : nd[n].c[i] \in LiveN
\* no element is below itself (paths are at most MaxNodes long)
RECURSIVE Below(_, _)
Below(n, d) == IF d = 0 THEN {} ELSE {nd[n].c[i] : i \in 1..Len(nd[n].c)} \cup UNION {Below(nd[n].c[i], d - 1) : i \in 1..Len(nd[n].c)}
Acyclic == \A n \in LiveN : n \notin Below(n, MaxNodes)
\* parent() is well defined outside amb: at most one element contains the node, once
AmbSound == /\ \A n \in LiveN \ amb : Occ(nd, n) <= 1
            /\ \A n \in amb : n \in LiveN /\ Occ(nd, n) >= 1
\* parent() is the inverse of children(): for every child c of e that is not ambiguous, parent(c) = e; roots have none
ParentInverse == \A e \in LiveN : \A i \in 1..Len(nd[e].c) :
                    LET c == nd[e].c[i] IN c \notin amb => ParentOf(nd, amb, c) = e
\* edit -> encode -> decode gives the edited tree up to Normalize (indented: when text occurs only as a sole child)
EditRoundTrip == \A h \in H : hv[h] # 0 =>
    LET u == Unfold(nd, hv[h]) IN
    Encodable(u) =>
        /\ LET r == X!Recognize(X!Enc(u, FALSE, 0)) IN r.ok /\ X!Normalize(r.v) = X!Normalize(u)
        /\ X!SoleText(u) => LET r == X!Recognize(X!Enc(u, TRUE, 0)) IN r.ok /\ X!Normalize(r.v) = X!Normalize(u)
        /\ X!Normalize(Canon(u)) = X!Normalize(u)

\* the same for the first handle only (quick configurations: the recognizer is the expensive part of a state)
EditRoundTrip1 == hv[1] # 0 =>
    LET u == Unfold(nd, hv[1]) IN
    Encodable(u) =>
        /\ LET r == X!Recognize(X!Enc(u, FALSE, 0)) IN r.ok /\ X!Normalize(r.v) = X!Normalize(u)
        /\ X!SoleText(u) => LET r == X!Recognize(X!Enc(u, TRUE, 0)) IN r.ok /\ X!Normalize(r.v) = X!Normalize(u)

LastOp == hist'[Len(hist')]
Stepped == hist' # hist /\ hist' # <<>>
\* a copy is separate: no node of the new tree is reachable from any other handle, and it denotes the same tree
CloneSeparate ==
    [][(Stepped /\ LastOp.op \in {"clone", "reparse"}) =>
        LET r == LastOp
            others == UNION {DescOf(nd', hv'[x]) : x \in {y \in H \ {r.g} : hv'[y] # 0}}
        IN /\ DescOf(nd', hv'[r.g]) \cap others = {}
           /\ \A n \in N : nd[n].k # "f" => nd'[n] = nd[n]                        \* and the source is untouched
           /\ Unfold(nd', hv'[r.g]) = (IF r.op = "clone" THEN Unfold(nd, hv[r.h]) ELSE Canon(Unfold(nd, hv[r.h])))
           /\ Occ(nd', hv'[r.g]) = 0]_vars
\* an edit through h changes h's node only (text growth: the last text child; put(name, v): the named child); other
\* nodes keep their content or are released
EditLocal ==
    [][(Stepped /\ LastOp.op \in {"append", "insert", "removeAt", "removeNode", "clear", "setAttr", "removeAttr", "setTag",
                                   "putText", "appendText", "putNamed"}) =>
        LET r == LastOp
            t0 == hv[r.h]
            may == {t0} \cup (IF r.op \in {"appendText", "putNamed"} THEN {nd[t0].c[i] : i \in 1..Len(nd[t0].c)} ELSE {})
        IN \A n \in N : (n \notin may /\ nd[n].k # "f") => (nd'[n] = nd[n] \/ nd'[n] = Free)]_vars
\* handle operations and queries that bind handles never change a node that stays alive
NavigationPure ==
    [][(Stepped /\ LastOp.op \in {"copy", "assign", "drop", "child", "parent"}) =>
        \A n \in N : nd'[n] = nd[n] \/ nd'[n] = Free]_vars

-------------------------------------------------------------------------------
(* observation, emitted with every transition for the replayer: every live node, and for every live handle the
   results of all queries *)
NodeRow(ndx, ambx, n) == [id |-> n, k |-> ndx[n].k, n |-> ndx[n].n, a |-> AttrSeq(ndx[n].a), c |-> ndx[n].c,
                          p |-> ParentOf(ndx, ambx, n),
                          pc |-> IF n \in ambx THEN SelectSeq(Ids, LAMBDA i : i \in Containers(ndx, n)) ELSE <<>>]
ObsNodes(ndx, ambx) == LET ls == SelectSeq(Ids, LAMBDA i : ndx[i].k # "f") IN [i \in 1..Len(ls) |-> NodeRow(ndx, ambx, ls[i])]
QueryRow(ndx, n) ==
    LET u == Unfold(ndx, n)
        enc == Encodable(u)
    IN [txt |-> TextOf(ndx, n), iv |-> IntOf(ndx, n, 77),
        tags |-> [j \in 1..Len(TagSeq) |-> [t |-> TagSeq[j], kids |-> ChildrenByTag(ndx, n, TagSeq[j]), all |-> FindAll(ndx, n, TagSeq[j])]],
        at |-> [j \in 1..NA |-> [an |-> ANames[j], has |-> IF ndx[n].a[j] # Absent THEN 1 ELSE 0,
                                 v |-> IF ndx[n].a[j] # Absent THEN ndx[n].a[j] ELSE <<>>]],
        trav |-> Pre(ndx, n),
        enc |-> IF enc THEN 1 ELSE 0, sole |-> IF enc /\ X!SoleText(u) THEN 1 ELSE 0,
        norm |-> IF enc THEN X!Normalize(u) ELSE X!NoTree]
ObsHandles(hvx, ndx) == LET ls == SelectSeq([i \in 1..NH |-> i], LAMBDA h : hvx[h] # 0)
                        IN [i \in 1..Len(ls) |-> [h |-> ls[i], id |-> hvx[ls[i]], q |-> QueryRow(ndx, hvx[ls[i]])]]
\* states reached by a copying call are kept apart from equal states reached otherwise: what follows a clone is then
\* replayed after a clone (sharing that the abstract state cannot show would surface in the next call)
ViewMark == IF hist = <<>> THEN "" ELSE IF hist[Len(hist)].op \in {"clone", "reparse"} THEN hist[Len(hist)].op ELSE ""
View == <<hv, nd, amb, Len(hist), hz, ViewMark>>
Emit == PrintT(ToJson([hist |-> hist', nodes |-> ObsNodes(nd', amb'), hs |-> ObsHandles(hv', nd'), hz |-> hz']))

-------------------------------------------------------------------------------
(* constant values a .cfg file cannot spell *)
TagsA      == <<<<97>>>>
TagsAB     == <<<<97>>, <<98>>>>
TagsABC    == <<<<97>>, <<98>>, <<99, 58, 100>>>>
TagsRec    == <<<<97>>, <<98>>, <<99, 58, 100>>, <<95, 101, 45, 49>>>>                    \* a b c:d _e-1
ANamesX    == <<<<120>>>>
ANamesXY   == <<<<120>>, <<121, 58, 122>>>>
ANamesRec  == <<<<107>>, <<120>>, <<121, 58, 122>>>>                                     \* k x y:z
AValsOne   == {<<49>>}
AValsSpec  == {<<38, 34, 60>>}
AValsTwo   == {<<49>>, <<38, 34, 60>>}
AValsThree == {<<>>, <<49>>, <<38, 34, 60>>}
TextsOne   == {<<116>>}
TextsTwo   == {<<116, 60>>, <<32>>}
TextsNum   == {<<116, 60>>, <<32, 55, 32>>}
TextsThree == {<<116, 60>>, <<32>>, <<32, 55, 32>>}
AllOps     == {"newElem", "newText", "newVal", "newAttr", "newKids", "copy", "assign", "drop", "child", "parent", "get",
               "findOne", "append", "insert", "appendText", "removeAt", "removeNode", "clear", "putText", "putNamed",
               "setAttr", "removeAttr", "setTag", "clone", "reparse"}
\* structure: building, sharing, moving, removing, handles, parent links
StructOps  == {"newElem", "newText", "newKids", "copy", "assign", "drop", "child", "parent", "append", "insert", "removeAt",
               "removeNode", "clear", "clone"}
\* content: text, attributes, names, tag queries, codec
ContentOps == {"newElem", "newVal", "newAttr", "drop", "child", "get", "findOne", "append", "appendText", "putText", "putNamed",
               "setAttr", "removeAttr", "setTag", "clone", "reparse"}
ContentOpsQ == {"newElem", "newVal", "newAttr", "child", "get", "append", "appendText", "putText", "putNamed",
                "setAttr", "removeAttr", "setTag", "reparse"}
===============================================================================
