------------------------------ MODULE Trace_Counter ------------------------------
(* V binding for C12: recorded free-running executions (with jitter) in which many threads hammer AtomicCount
   objects, Atomic<int> objects and shared handles.  Every atomic increment/decrement the library performs is logged
   by the ASL_VERIF hooks with the value it returned (kind 2 = increment, 4 = decrement).  Each line of the trace is
   one execution; its events are grouped by counter object and, per object, by thread in program order (the order of
   logging across threads is not the order of the operations, so it is not used).  The specification of a counter is

        Inc:  val' = val + 1, returns val'          Dec:  val' = val - 1, returns val'

   and an execution is accepted iff, for every counter, TLC finds a linearization: an interleaving of the per-thread
   sequences in which every logged result is the one the counter specification returns.  Two increments that returned
   the same value (a lost update) or an unlogged modification make every interleaving fail.
   Harness events: 111 = the counter is known to hold v now, 113 = "+= v" executed under the object's own lock
   (result not observable), 112 = final read returned v after all other threads were joined.  Counters first seen in
   mid-life (reference counts of objects created earlier) start Unknown and are pinned by their first logged result. *)
EXTENDS Integers, Sequences, FiniteSets, TLC, Json, IOUtils

T == ndJsonDeserialize(IOEnv.TRACE)
NExec == Len(T)
RECURSIVE SumLen(_, _)
SumLen(ev, i) == IF i > Len(ev) THEN 0 ELSE Len(ev[i]) + SumLen(ev, i + 1)
RECURSIVE ObjTotal(_, _)
ObjTotal(objs, i) == IF i > Len(objs) THEN 0 ELSE SumLen(objs[i].ev, 1) + 1 + ObjTotal(objs, i + 1)
RECURSIVE TotalFrom(_)
TotalFrom(x) == IF x > NExec THEN 0 ELSE ObjTotal(T[x].objs, 1) + 1 + TotalFrom(x + 1)
Total == TotalFrom(1)     \* one step per event, one per object, one per execution

VARIABLES x, oi, pos, val
vars == <<x, oi, pos, val>>
Unknown == -1000000
Ev == T[x].objs[oi].ev
Pos0(xx, o) == IF xx <= NExec /\ o <= Len(T[xx].objs) THEN [t \in 1..Len(T[xx].objs[o].ev) |-> 0] ELSE <<>>

Init == x = 1 /\ oi = 1 /\ pos = Pos0(1, 1) /\ val = Unknown

Th == 1..Len(pos)
InObj == x <= NExec /\ oi <= Len(T[x].objs)
ObjDone == \A t \in Th : pos[t] = Len(Ev[t])
OthersDone(t) == \A u \in Th \ {t} : pos[u] = Len(Ev[u])

\* "+= v" events (113) commute with each other and carry no observable result: they are consumed eagerly, lowest
\* thread first, so that they do not multiply the interleavings TLC has to try
Next113(t) == pos[t] < Len(Ev[t]) /\ Ev[t][pos[t] + 1].k = 113
Next111(t) == pos[t] < Len(Ev[t]) /\ Ev[t][pos[t] + 1].k = 111
Consume(t) ==
  /\ InObj /\ pos[t] < Len(Ev[t])
  /\ (\E u \in Th : Next111(u)) => Next111(t)                        \* a known value is installed before anything else
  /\ (~\E u \in Th : Next111(u)) => \A u \in Th : Next113(u) => (Next113(t) /\ t <= u)
  /\ LET e == Ev[t][pos[t] + 1] IN
     \/ /\ e.k = 2 /\ (val = Unknown \/ e.v = val + 1) /\ val' = e.v
     \/ /\ e.k = 4 /\ (val = Unknown \/ e.v = val - 1) /\ val' = e.v
     \/ /\ e.k = 111 /\ val' = e.v
     \/ /\ e.k = 113 /\ val # Unknown /\ val' = val + e.v
     \/ /\ e.k = 112 /\ OthersDone(t) /\ val = e.v /\ UNCHANGED val
  /\ pos' = [pos EXCEPT ![t] = @ + 1]
  /\ UNCHANGED <<x, oi>>
NextObj == /\ InObj /\ ObjDone
           /\ oi' = oi + 1 /\ pos' = Pos0(x, oi + 1) /\ val' = Unknown /\ UNCHANGED x
\* high-contention executions carry only totals: final value = initial value + sum of all operations
RECURSIVE SeqSum(_, _)
SeqSum(q, i) == IF i > Len(q) THEN 0 ELSE q[i] + SeqSum(q, i + 1)
RECURSIVE Pow2(_)
Pow2(n) == IF n = 0 THEN 1 ELSE 2 * Pow2(n - 1)
SumsOK(xx) == ("sum" \in DOMAIN T[xx]) =>
                /\ \A i \in 1..Len(T[xx].sum) : T[xx].sum[i].final = T[xx].sum[i].init + SeqSum(T[xx].sum[i].net, 1)
                \* multiplicative read-modify-write operators: n concurrent "*= 2" then n concurrent "/= 2"
                /\ T[xx].prod.afterMul = T[xx].prod.init * Pow2(T[xx].prod.doublings)
                /\ T[xx].prod.afterDiv = T[xx].prod.init
NextExec == /\ x <= NExec /\ oi > Len(T[x].objs)
            /\ SumsOK(x)
            /\ x' = x + 1 /\ oi' = 1 /\ pos' = Pos0(x + 1, 1) /\ val' = Unknown
Next == (\E t \in Th : Consume(t)) \/ NextObj \/ NextExec
TraceSpec == Init /\ [][Next]_vars
\* accepted iff every counter of every execution has a linearization
TraceAccepted == TLCGet("stats").diameter - 1 = Total
===============================================================================
