------------------------------ MODULE Trace_Counter ------------------------------
(* V binding for C12: recorded free-running executions (with jitter) in which many threads hammer AtomicCount
   objects, Atomic<int> objects and shared handles.  Every atomic increment/decrement the library performs is logged
   by the ASL_VERIF hooks with the value it returned (kind 2 = increment, 4 = decrement).  Each line of the trace is
   one execution; its events are grouped by counter object and, per object, by thread in program order (the order of
   logging across threads is not the order of the operations, so it is not used).  The specification of a counter is

        Inc:  val' = val + 1, returns val'          Dec:  val' = val - 1, returns val'

   and an execution is accepted iff, for every counter, TLC finds a linearization: an interleaving of the per-thread
   sequences in which every logged result is the one the counter specification returns.  Two increments that returned
   the same value (a lost update) or an unlogged modification make every interleaving fail.
   Harness events: 111 = the counter is known to hold v now, 113 = "+= v" executed under the object's own lock
   (result not observable), 112 = final read returned v after all other threads were joined.  Counters first seen in
   mid-life (reference counts of objects created earlier) start Unknown and are pinned by their first logged result.

   The rest of the Atomic<T> / AtomicCount interface returns values, and every returned value must be explained by the
   same linearization (harness events, logged by the calling thread right after the call, v = the returned value):
        114  ++a   returned v :  val' = val + 1 /\ v = val'        115  a++  returned v :  v = val /\ val' = val + 1
        116  --a   returned v :  val' = val - 1 /\ v = val'        117  a--  returned v :  v = val /\ val' = val - 1
        118  read (operator T, operator~, AtomicCount::operator int) returned v :  v = val
        119  a = v (store)      :  val' = v
        120..125  a == c, a != c, a < c, a <= c, a > c, a >= c returned r (v = (c + 1000) * 2 + r) :  r = (val op c)
        126  -a    returned v :  v = -val                           127  !a   returned r :  r = (val = 0)
   A counter with such events is linearized without the "+= commutes" shortcut (the order of a += and a read matters).

   Reference counts (counters that were not installed by a 111 event) additionally obey the life-cycle rule: the
   decrement that returns 0 is the last operation on the counter (the object is destroyed by whoever got the 0; any
   later increment or decrement would be an access to a destroyed object).                                         *)
EXTENDS Integers, Sequences, FiniteSets, TLC, Json, IOUtils

T == ndJsonDeserialize(IOEnv.TRACE)
NExec == Len(T)
RECURSIVE SumLen(_, _)
SumLen(ev, i) == IF i > Len(ev) THEN 0 ELSE Len(ev[i]) + SumLen(ev, i + 1)
RECURSIVE ObjTotal(_, _)
ObjTotal(objs, i) == IF i > Len(objs) THEN 0 ELSE SumLen(objs[i].ev, 1) + 1 + ObjTotal(objs, i + 1)
RECURSIVE TotalFrom(_)
TotalFrom(x) == IF x > NExec THEN 0 ELSE ObjTotal(T[x].objs, 1) + 1 + TotalFrom(x + 1)
Total == TotalFrom(1)     \* one step per event, one per object, one per execution

VARIABLES x, oi, pos, val, dead
vars == <<x, oi, pos, val, dead>>
Unknown == -1000000
Ev == T[x].objs[oi].ev
Pos0(xx, o) == IF xx <= NExec /\ o <= Len(T[xx].objs) THEN [t \in 1..Len(T[xx].objs[o].ev) |-> 0] ELSE <<>>

Init == x = 1 /\ oi = 1 /\ pos = Pos0(1, 1) /\ val = Unknown /\ dead = FALSE

Th == 1..Len(pos)
InObj == x <= NExec /\ oi <= Len(T[x].objs)
ObjDone == \A t \in Th : pos[t] = Len(Ev[t])
OthersDone(t) == \A u \in Th \ {t} : pos[u] = Len(Ev[u])

\* "+= v" events (113) commute with each other and carry no observable result: they are consumed eagerly, lowest
\* thread first, so that they do not multiply the interleavings TLC has to try
Next113(t) == pos[t] < Len(Ev[t]) /\ Ev[t][pos[t] + 1].k = 113
Next111(t) == pos[t] < Len(Ev[t]) /\ Ev[t][pos[t] + 1].k = 111
ObsKinds == 114..127
HasObs == \E u \in Th : \E i \in 1..Len(Ev[u]) : Ev[u][i].k \in ObsKinds
\* a counter installed by the harness (111) is a plain counter; any other is a reference count of some object
\* (the harness installs a counter before it starts the threads, so a 111 event is the first event of its thread)
IsRefCount == \A u \in Th : Len(Ev[u]) = 0 \/ Ev[u][1].k # 111
CmpHolds(k, a, c) == IF k = 120 THEN a = c ELSE IF k = 121 THEN a # c ELSE IF k = 122 THEN a < c
                     ELSE IF k = 123 THEN a <= c ELSE IF k = 124 THEN a > c ELSE a >= c
\* the counter's value after event e of thread t, or Bad if the specification cannot produce e's result now
Bad == -2000000
Known == val # Unknown
After(e, t) ==
   IF e.k = 2 THEN (IF val = Unknown \/ e.v = val + 1 THEN e.v ELSE Bad)
   ELSE IF e.k = 4 THEN (IF val = Unknown \/ e.v = val - 1 THEN e.v ELSE Bad)
   ELSE IF e.k = 111 THEN e.v
   ELSE IF e.k = 113 THEN (IF Known THEN val + e.v ELSE Bad)
   ELSE IF e.k = 112 THEN (IF OthersDone(t) /\ val = e.v THEN val ELSE Bad)
   ELSE IF e.k = 114 THEN (IF Known /\ e.v = val + 1 THEN e.v ELSE Bad)
   ELSE IF e.k = 115 THEN (IF Known /\ e.v = val THEN val + 1 ELSE Bad)
   ELSE IF e.k = 116 THEN (IF Known /\ e.v = val - 1 THEN e.v ELSE Bad)
   ELSE IF e.k = 117 THEN (IF Known /\ e.v = val THEN val - 1 ELSE Bad)
   ELSE IF e.k = 118 THEN (IF Known /\ e.v = val THEN val ELSE Bad)
   ELSE IF e.k = 119 THEN e.v
   ELSE IF e.k \in 120..125 THEN (IF Known /\ ((e.v % 2 = 1) = CmpHolds(e.k, val, (e.v \div 2) - 1000)) THEN val ELSE Bad)
   ELSE IF e.k = 126 THEN (IF Known /\ e.v = 0 - val THEN val ELSE Bad)
   ELSE IF e.k = 127 THEN (IF Known /\ ((e.v = 1) = (val = 0)) THEN val ELSE Bad)
   ELSE Bad
Consume(t) ==
  /\ InObj /\ pos[t] < Len(Ev[t])
  /\ ~dead                                                             \* nothing happens to a destroyed object
  /\ (\E u \in Th : Next111(u)) => Next111(t)                        \* a known value is installed before anything else
  /\ (~\E u \in Th : Next111(u)) => (IF IsRefCount THEN TRUE ELSE IF HasObs THEN TRUE
                                       ELSE \A u \in Th : Next113(u) => (Next113(t) /\ t <= u))
  /\ LET e == Ev[t][pos[t] + 1]
         nv == After(e, t) IN      \* (one expression instead of one disjunct per kind: TLC would try every disjunct)
     /\ nv # Bad
     /\ val' = nv
     /\ dead' = (IsRefCount /\ e.k = 4 /\ e.v = 0)
  /\ pos' = [pos EXCEPT ![t] = @ + 1]
  /\ UNCHANGED <<x, oi>>
NextObj == /\ InObj /\ ObjDone
           /\ oi' = oi + 1 /\ pos' = Pos0(x, oi + 1) /\ val' = Unknown /\ dead' = FALSE /\ UNCHANGED x
\* high-contention executions carry only totals: final value = initial value + sum of all operations
RECURSIVE SeqSum(_, _)
SeqSum(q, i) == IF i > Len(q) THEN 0 ELSE q[i] + SeqSum(q, i + 1)
RECURSIVE Pow2(_)
Pow2(n) == IF n = 0 THEN 1 ELSE 2 * Pow2(n - 1)
SumsOK(xx) == ("sum" \in DOMAIN T[xx]) =>
                /\ \A i \in 1..Len(T[xx].sum) : T[xx].sum[i].final = T[xx].sum[i].init + SeqSum(T[xx].sum[i].net, 1)
                \* multiplicative read-modify-write operators: n concurrent "*= 2" then n concurrent "/= 2"
                /\ T[xx].prod.afterMul = T[xx].prod.init * Pow2(T[xx].prod.doublings)
                /\ T[xx].prod.afterDiv = T[xx].prod.init
\* hand-off executions (RefHandoff.tla): the put / got events of a Mutex-protected Queue in the order they happened.
\* The queue specification replayed over them: a got returns the oldest item not yet taken, never from an empty queue;
\* every item is put once; at the end nothing is left.
RECURSIVE ChanReplay(_, _, _, _)
ChanReplay(ev, i, qq, seen) ==
   IF i > Len(ev) THEN qq = <<>>
   ELSE IF ev[i].k = 130 THEN ev[i].v \notin seen /\ ChanReplay(ev, i + 1, Append(qq, ev[i].v), seen \cup {ev[i].v})
   ELSE qq # <<>> /\ Head(qq) = ev[i].v /\ ChanReplay(ev, i + 1, Tail(qq), seen)
ChanOK(xx) == ("chan" \in DOMAIN T[xx]) => ChanReplay(T[xx].chan, 1, <<>>, {})
NextExec == /\ x <= NExec /\ oi > Len(T[x].objs)
            /\ SumsOK(x) /\ ChanOK(x)
            /\ x' = x + 1 /\ oi' = 1 /\ pos' = Pos0(x + 1, 1) /\ val' = Unknown /\ dead' = FALSE
Next == (\E t \in Th : Consume(t)) \/ NextObj \/ NextExec
TraceSpec == Init /\ [][Next]_vars
\* accepted iff every counter of every execution has a linearization
TraceAccepted == TLCGet("stats").diameter - 1 = Total
===============================================================================
