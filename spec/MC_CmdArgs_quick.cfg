SPECIFICATION Spec
CONSTANTS
 Tokens <- TokQ
 MaxToks = 4
 Specs <- SpecsQ
 Probes <- ProbesQ
 MaxQ = 1
ACTION_CONSTRAINT Emit
INVARIANTS ScanAgrees Partition NoOptionLost ValueLaws UnusedOK
CHECK_DEADLOCK FALSE
