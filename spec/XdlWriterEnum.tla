---------------------------- MODULE XdlWriterEnum ----------------------------
(* C05 - enumeration of (tree, mode) pairs for the writer specification XdlWriter: every flag combination of Json::Mode
   over a table of trees chosen to hit every layout rule (10/11 items, 16/17/33 items per row, 100/101 string
   characters, first-item rules, nesting levels, empty containers, key order, skipped NONE members, class names,
   escapes) and every scalar form (ints, reals in fixed and scientific %g notation at the four precisions, -0, NaN,
   infinities, NONE).  Per case TLC prints the exact text  Ser(tree, mode)  and the value decoding it must give;
   harness/c05_replay builds the Var, calls Xdl::encode / Json::encode / Xdl::write / Json::write with that mode, decodes
   the real text with the real decoder (value must be exp), and compares the bytes with Ser: equal bytes need nothing more
   (the laws below are proved for them); a real text that differs from Ser is NOT a failure - the exact layout is not
   part of C05 - but a *deviation*: it is logged and judged by TLC on the real text itself (Trace_XdlWriterDev: recognizer /
   parser design accept it with value Lossy(tree), number tokens within the digits law of the mode, documented flag promises).

   Laws checked by TLC on the specification itself, for every enumerated pair (the writer's dialects are inside the
   reader's languages and denote the same value):
     JsonLaw   JSON flag set: the strict RFC 8259 recognizer accepts Ser(tree, mode) and the value is Lossy(tree)
               (reals: the token is the correctly rounded 17/15/9/7-digit decimal of the IEEE pattern - this also proves
               the digit tables g of the leaves)
     XdlLaw    XDL dialect, identifier keys: the design of the parser (XdlSM) accepts Ser(tree, mode) with value Lossy(tree)
               (a "$type" member comes back as that member)
     PromiseLaw Ser keeps what include/asl/JSON.h documents for the flags (XdlWriter!ModePromises)
     LayoutLaw PRETTY texts end with a newline, contain no blank or space-terminated line and no TAB outside the
               indentation; non-PRETTY texts contain no newline, TAB or space outside strings
     ModeLaw   Ser does not depend on the undocumented bits COMPACT / EXACT                                   *)
EXTENDS XdlWriter, XdlSM, Json

CONSTANT ModeSet          \* "all": the 16 combinations of PRETTY, SIMPLE, JSON, SHORTF plus four with COMPACT / EXACT;
                          \* "all64": all 64 values of the six bits
VARIABLES n, act
wvars == <<n, act>>

I(x) == [i |-> <<IF x < 0 THEN 1 ELSE 0, (IF x < 0 THEN -x ELSE x) \div 65536, (IF x < 0 THEN -x ELSE x) % 65536>>]
S(bytes) == [s |-> bytes]
Z == [z |-> 0]
NONE == [none |-> 0]
BT == [b |-> 1]
BF == [b |-> 0]
NaN == [nan |-> 64]
NaNF == [nan |-> 32]
PInf == [inf |-> 0, w |-> 64]
NInf == [inf |-> 1, w |-> 64]
NInfF == [inf |-> 1, w |-> 32]
IMin == [i |-> <<1, 32768, 0>>]
Rep(c, k) == [j \in 1..k |-> c]
A(items) == [a |-> items]
O(members) == [o |-> members]
Ka == <<97>>
Kb == <<98>>
Kk == <<107>>
Kk2 == <<107, 50>>
KZ == <<90, 95, 49>>            \* Z_1  (upper case sorts before lower case)

\* ---- reals with their 17 / 15 / 9 / 7 digit decimals (proved against the patterns by JsonLaw) ----
DL1 == [d |-> <<16313,39321,39321,39322>>, g |-> <<[neg |-> FALSE, ds |-> <<1,0,0,0,0,0,0,0,0,0,0,0,0,0,0,0,1>>, e |-> 0],
      [neg |-> FALSE, ds |-> <<1>>, e |-> 0],
      [neg |-> FALSE, ds |-> <<1>>, e |-> 0],
      [neg |-> FALSE, ds |-> <<1>>, e |-> 0]>>]   \* 0.1
DL2 == [d |-> <<32768,0,0,0>>, g |-> <<[neg |-> TRUE, ds |-> <<>>, e |-> 0],
      [neg |-> TRUE, ds |-> <<>>, e |-> 0],
      [neg |-> TRUE, ds |-> <<>>, e |-> 0],
      [neg |-> TRUE, ds |-> <<>>, e |-> 0]>>]   \* -0.0
DL3 == [d |-> <<16376,0,0,0>>, g |-> <<[neg |-> FALSE, ds |-> <<1,5>>, e |-> 1],
      [neg |-> FALSE, ds |-> <<1,5>>, e |-> 1],
      [neg |-> FALSE, ds |-> <<1,5>>, e |-> 1],
      [neg |-> FALSE, ds |-> <<1,5>>, e |-> 1]>>]   \* 1.5
DL4 == [d |-> <<49176,0,0,0>>, g |-> <<[neg |-> TRUE, ds |-> <<6>>, e |-> 1],
      [neg |-> TRUE, ds |-> <<6>>, e |-> 1],
      [neg |-> TRUE, ds |-> <<6>>, e |-> 1],
      [neg |-> TRUE, ds |-> <<6>>, e |-> 1]>>]   \* -6.0
DL5 == [d |-> <<16850,25984,46208,0>>, g |-> <<[neg |-> FALSE, ds |-> <<1,2,3,4,5,6,7,8,9>>, e |-> 10],
      [neg |-> FALSE, ds |-> <<1,2,3,4,5,6,7,8,9>>, e |-> 10],
      [neg |-> FALSE, ds |-> <<1,2,3,4,5,6,7,8,9>>, e |-> 10],
      [neg |-> FALSE, ds |-> <<1,2,3,4,5,6,8>>, e |-> 10]>>]   \* 1234567890.0
DL6 == [d |-> <<17216,0,0,0>>, g |-> <<[neg |-> FALSE, ds |-> <<9,0,0,7,1,9,9,2,5,4,7,4,0,9,9,2>>, e |-> 16],
      [neg |-> FALSE, ds |-> <<9,0,0,7,1,9,9,2,5,4,7,4,0,9,9>>, e |-> 16],
      [neg |-> FALSE, ds |-> <<9,0,0,7,1,9,9,2,5>>, e |-> 16],
      [neg |-> FALSE, ds |-> <<9,0,0,7,1,9,9>>, e |-> 16]>>]   \* 9007199254740992.0
DL7 == [d |-> <<32751,65535,65535,65535>>, g |-> <<[neg |-> FALSE, ds |-> <<1,7,9,7,6,9,3,1,3,4,8,6,2,3,1,5,7>>, e |-> 309],
      [neg |-> FALSE, ds |-> <<1,7,9,7,6,9,3,1,3,4,8,6,2,3,2>>, e |-> 309],
      [neg |-> FALSE, ds |-> <<1,7,9,7,6,9,3,1,3>>, e |-> 309],
      [neg |-> FALSE, ds |-> <<1,7,9,7,6,9,3>>, e |-> 309]>>]   \* 1.7976931348623157e+308
DL8 == [d |-> <<0,0,0,1>>, g |-> <<[neg |-> FALSE, ds |-> <<4,9,4,0,6,5,6,4,5,8,4,1,2,4,6,5,4>>, e |-> -323],
      [neg |-> FALSE, ds |-> <<4,9,4,0,6,5,6,4,5,8,4,1,2,4,7>>, e |-> -323],
      [neg |-> FALSE, ds |-> <<4,9,4,0,6,5,6,4,6>>, e |-> -323],
      [neg |-> FALSE, ds |-> <<4,9,4,0,6,5,6>>, e |-> -323]>>]   \* 5e-324
DL9 == [d |-> <<16341,21845,21845,21845>>, g |-> <<[neg |-> FALSE, ds |-> <<3,3,3,3,3,3,3,3,3,3,3,3,3,3,3,3,1>>, e |-> 0],
      [neg |-> FALSE, ds |-> <<3,3,3,3,3,3,3,3,3,3,3,3,3,3,3>>, e |-> 0],
      [neg |-> FALSE, ds |-> <<3,3,3,3,3,3,3,3,3>>, e |-> 0],
      [neg |-> FALSE, ds |-> <<3,3,3,3,3,3,3>>, e |-> 0]>>]   \* 0.3333333333333333
DL10 == [d |-> <<16000,37361,26239,1429>>, g |-> <<[neg |-> FALSE, ds |-> <<1,2,3,4,5,6,7,8,9,0,1,2,3,4,5,6,6>>, e |-> -6],
      [neg |-> FALSE, ds |-> <<1,2,3,4,5,6,7,8,9,0,1,2,3,4,6>>, e |-> -6],
      [neg |-> FALSE, ds |-> <<1,2,3,4,5,6,7,8,9>>, e |-> -6],
      [neg |-> FALSE, ds |-> <<1,2,3,4,5,6,8>>, e |-> -6]>>]   \* 1.2345678901234566e-07
DL11 == [d |-> <<16160,11909,48664,2932>>, g |-> <<[neg |-> FALSE, ds |-> <<1,2,3,4,5,6,7,8,9,0,1,2,3,4,5,6,7>>, e |-> -3],
      [neg |-> FALSE, ds |-> <<1,2,3,4,5,6,7,8,9,0,1,2,3,4,6>>, e |-> -3],
      [neg |-> FALSE, ds |-> <<1,2,3,4,5,6,7,8,9>>, e |-> -3],
      [neg |-> FALSE, ds |-> <<1,2,3,4,5,6,8>>, e |-> -3]>>]   \* 0.00012345678901234567
DL12 == [d |-> <<17536,61647,1613,54674>>, g |-> <<[neg |-> FALSE, ds |-> <<1>>, e |-> 23],
      [neg |-> FALSE, ds |-> <<1>>, e |-> 23],
      [neg |-> FALSE, ds |-> <<1>>, e |-> 23],
      [neg |-> FALSE, ds |-> <<1>>, e |-> 23]>>]   \* 1e+22
DL13 == [d |-> <<17589,11522,51169,19190>>, g |-> <<[neg |-> FALSE, ds |-> <<9,9,9,9,9,9,9,9,9,9,9,9,9,9,9,9,2>>, e |-> 23],
      [neg |-> FALSE, ds |-> <<1>>, e |-> 24],
      [neg |-> FALSE, ds |-> <<1>>, e |-> 24],
      [neg |-> FALSE, ds |-> <<1>>, e |-> 24]>>]   \* 1e+23
DL14 == [d |-> <<48890,14050,60188,17197>>, g |-> <<[neg |-> TRUE, ds |-> <<2,5,0,0,0,0,0,0,0,0,0,0,0,0,0,0,1>>, e |-> -4],
      [neg |-> TRUE, ds |-> <<2,5>>, e |-> -4],
      [neg |-> TRUE, ds |-> <<2,5>>, e |-> -4],
      [neg |-> TRUE, ds |-> <<2,5>>, e |-> -4]>>]   \* -2.5e-05
DL15 == [d |-> <<16401,26214,26214,26214>>, g |-> <<[neg |-> FALSE, ds |-> <<4,3,4,9,9,9,9,9,9,9,9,9,9,9,9,9,6>>, e |-> 1],
      [neg |-> FALSE, ds |-> <<4,3,5>>, e |-> 1],
      [neg |-> FALSE, ds |-> <<4,3,5>>, e |-> 1],
      [neg |-> FALSE, ds |-> <<4,3,5>>, e |-> 1]>>]   \* 4.35
DL16 == [d |-> <<17164,27637,9780,4>>, g |-> <<[neg |-> FALSE, ds |-> <<1,0,0,0,0,0,0,0,0,0,0,0,0,0,0,0,5>>, e |-> 16],
      [neg |-> FALSE, ds |-> <<1>>, e |-> 16],
      [neg |-> FALSE, ds |-> <<1>>, e |-> 16],
      [neg |-> FALSE, ds |-> <<1>>, e |-> 16]>>]   \* 1000000000000000.5
DL17 == [d |-> <<17270,13399,34264,40960>>, g |-> <<[neg |-> FALSE, ds |-> <<1>>, e |-> 18],
      [neg |-> FALSE, ds |-> <<1>>, e |-> 18],
      [neg |-> FALSE, ds |-> <<1>>, e |-> 18],
      [neg |-> FALSE, ds |-> <<1>>, e |-> 18]>>]   \* 1e+17
DL18 == [d |-> <<17275,27060,47715,3893>>, g |-> <<[neg |-> FALSE, ds |-> <<1,2,3,4,5,6,7,8,9,0,1,2,3,4,5,6,8>>, e |-> 18],
      [neg |-> FALSE, ds |-> <<1,2,3,4,5,6,7,8,9,0,1,2,3,4,6>>, e |-> 18],
      [neg |-> FALSE, ds |-> <<1,2,3,4,5,6,7,8,9>>, e |-> 18],
      [neg |-> FALSE, ds |-> <<1,2,3,4,5,6,8>>, e |-> 18]>>]   \* 1.2345678901234568e+17
DL19 == [d |-> <<16154,14050,60188,17197>>, g |-> <<[neg |-> FALSE, ds |-> <<1>>, e |-> -3],
      [neg |-> FALSE, ds |-> <<1>>, e |-> -3],
      [neg |-> FALSE, ds |-> <<1>>, e |-> -3],
      [neg |-> FALSE, ds |-> <<1>>, e |-> -3]>>]   \* 0.0001
DL20 == [d |-> <<16100,63669,35043,26865>>, g |-> <<[neg |-> FALSE, ds |-> <<1,0,0,0,0,0,0,0,0,0,0,0,0,0,0,0,1>>, e |-> -4],
      [neg |-> FALSE, ds |-> <<1>>, e |-> -4],
      [neg |-> FALSE, ds |-> <<1>>, e |-> -4],
      [neg |-> FALSE, ds |-> <<1>>, e |-> -4]>>]   \* 1e-05
DL21 == [d |-> <<17217,50041,14304,32768>>, g |-> <<[neg |-> FALSE, ds |-> <<1>>, e |-> 17],
      [neg |-> FALSE, ds |-> <<1>>, e |-> 17],
      [neg |-> FALSE, ds |-> <<1>>, e |-> 17],
      [neg |-> FALSE, ds |-> <<1>>, e |-> 17]>>]   \* 1e+16
DL22 == [d |-> <<17270,13399,34264,40959>>, g |-> <<[neg |-> FALSE, ds |-> <<9,9,9,9,9,9,9,9,9,9,9,9,9,9,9,8,4>>, e |-> 17],
      [neg |-> FALSE, ds |-> <<1>>, e |-> 18],
      [neg |-> FALSE, ds |-> <<1>>, e |-> 18],
      [neg |-> FALSE, ds |-> <<1>>, e |-> 18]>>]   \* 9.999999999999998e+16
DL23 == [d |-> <<16686,33919,58982,26214>>, g |-> <<[neg |-> FALSE, ds |-> <<9,9,9,9,9,9,9,4,9,9,9,9,9,9,9,9,5>>, e |-> 6],
      [neg |-> FALSE, ds |-> <<9,9,9,9,9,9,9,5>>, e |-> 6],
      [neg |-> FALSE, ds |-> <<9,9,9,9,9,9,9,5>>, e |-> 6],
      [neg |-> FALSE, ds |-> <<9,9,9,9,9,9,9>>, e |-> 6]>>]   \* 999999.95
DL24 == [d |-> <<16739,4815,61440,0>>, g |-> <<[neg |-> FALSE, ds |-> <<9,9,9,9,9,9,9,5>>, e |-> 7],
      [neg |-> FALSE, ds |-> <<9,9,9,9,9,9,9,5>>, e |-> 7],
      [neg |-> FALSE, ds |-> <<9,9,9,9,9,9,9,5>>, e |-> 7],
      [neg |-> FALSE, ds |-> <<1>>, e |-> 8]>>]   \* 9999999.5
FL1 == [f |-> <<15820,52429>>, g |-> <<[neg |-> FALSE, ds |-> <<1,0,0,0,0,0,0,0,1,4,9,0,1,1,6,1,2>>, e |-> 0],
      [neg |-> FALSE, ds |-> <<1,0,0,0,0,0,0,0,1,4,9,0,1,1,6>>, e |-> 0],
      [neg |-> FALSE, ds |-> <<1,0,0,0,0,0,0,0,1>>, e |-> 0],
      [neg |-> FALSE, ds |-> <<1>>, e |-> 0]>>]   \* 0.10000000149011612f
FL2 == [f |-> <<16320,0>>, g |-> <<[neg |-> FALSE, ds |-> <<1,5>>, e |-> 1],
      [neg |-> FALSE, ds |-> <<1,5>>, e |-> 1],
      [neg |-> FALSE, ds |-> <<1,5>>, e |-> 1],
      [neg |-> FALSE, ds |-> <<1,5>>, e |-> 1]>>]   \* 1.5f
FL3 == [f |-> <<16448,0>>, g |-> <<[neg |-> FALSE, ds |-> <<3>>, e |-> 1],
      [neg |-> FALSE, ds |-> <<3>>, e |-> 1],
      [neg |-> FALSE, ds |-> <<3>>, e |-> 1],
      [neg |-> FALSE, ds |-> <<3>>, e |-> 1]>>]   \* 3.0f
FL4 == [f |-> <<19328,0>>, g |-> <<[neg |-> FALSE, ds |-> <<1,6,7,7,7,2,1,6>>, e |-> 8],
      [neg |-> FALSE, ds |-> <<1,6,7,7,7,2,1,6>>, e |-> 8],
      [neg |-> FALSE, ds |-> <<1,6,7,7,7,2,1,6>>, e |-> 8],
      [neg |-> FALSE, ds |-> <<1,6,7,7,7,2,2>>, e |-> 8]>>]   \* 16777216.0f
FL5 == [f |-> <<32639,65535>>, g |-> <<[neg |-> FALSE, ds |-> <<3,4,0,2,8,2,3,4,6,6,3,8,5,2,8,8,6>>, e |-> 39],
      [neg |-> FALSE, ds |-> <<3,4,0,2,8,2,3,4,6,6,3,8,5,2,9>>, e |-> 39],
      [neg |-> FALSE, ds |-> <<3,4,0,2,8,2,3,4,7>>, e |-> 39],
      [neg |-> FALSE, ds |-> <<3,4,0,2,8,2,3>>, e |-> 39]>>]   \* 3.4028234663852886e+38f
FL6 == [f |-> <<0,1>>, g |-> <<[neg |-> FALSE, ds |-> <<1,4,0,1,2,9,8,4,6,4,3,2,4,8,1,7,1>>, e |-> -44],
      [neg |-> FALSE, ds |-> <<1,4,0,1,2,9,8,4,6,4,3,2,4,8,2>>, e |-> -44],
      [neg |-> FALSE, ds |-> <<1,4,0,1,2,9,8,4,6>>, e |-> -44],
      [neg |-> FALSE, ds |-> <<1,4,0,1,2,9,8>>, e |-> -44]>>]   \* 1.401298464324817e-45f
FL7 == [f |-> <<48793,39322>>, g |-> <<[neg |-> TRUE, ds |-> <<3,0,0,0,0,0,0,1,1,9,2,0,9,2,8,9,6>>, e |-> 0],
      [neg |-> TRUE, ds |-> <<3,0,0,0,0,0,0,1,1,9,2,0,9,2,9>>, e |-> 0],
      [neg |-> TRUE, ds |-> <<3,0,0,0,0,0,0,1,2>>, e |-> 0],
      [neg |-> TRUE, ds |-> <<3>>, e |-> 0]>>]   \* -0.30000001192092896f
FL8 == [f |-> <<20501,761>>, g |-> <<[neg |-> FALSE, ds |-> <<1>>, e |-> 11],
      [neg |-> FALSE, ds |-> <<1>>, e |-> 11],
      [neg |-> FALSE, ds |-> <<1>>, e |-> 11],
      [neg |-> FALSE, ds |-> <<1>>, e |-> 11]>>]   \* 10000000000.0f
FL9 == [f |-> <<16042,43691>>, g |-> <<[neg |-> FALSE, ds |-> <<3,3,3,3,3,3,3,4,3,2,6,7,4,4,0,8>>, e |-> 0],
      [neg |-> FALSE, ds |-> <<3,3,3,3,3,3,3,4,3,2,6,7,4,4,1>>, e |-> 0],
      [neg |-> FALSE, ds |-> <<3,3,3,3,3,3,3,4,3>>, e |-> 0],
      [neg |-> FALSE, ds |-> <<3,3,3,3,3,3,3>>, e |-> 0]>>]   \* 0.3333333432674408f
FL10 == [f |-> <<19224,38528>>, g |-> <<[neg |-> FALSE, ds |-> <<1>>, e |-> 8],
      [neg |-> FALSE, ds |-> <<1>>, e |-> 8],
      [neg |-> FALSE, ds |-> <<1>>, e |-> 8],
      [neg |-> FALSE, ds |-> <<1>>, e |-> 8]>>]   \* 10000000.0f
FL11 == [f |-> <<14545,46871>>, g |-> <<[neg |-> FALSE, ds |-> <<9,9,9,9,9,9,9,7,4,7,3,7,8,7,5,1,6>>, e |-> -4],
      [neg |-> FALSE, ds |-> <<9,9,9,9,9,9,9,7,4,7,3,7,8,7,5>>, e |-> -4],
      [neg |-> FALSE, ds |-> <<9,9,9,9,9,9,9,7,5>>, e |-> -4],
      [neg |-> FALSE, ds |-> <<1>>, e |-> -3]>>]   \* 9.999999747378752e-05f
Doubles == <<DL1, DL2, DL3, DL4, DL5, DL6, DL7, DL8, DL9, DL10, DL11, DL12, DL13, DL14, DL15, DL16, DL17, DL18, DL19, DL20,
             DL21, DL22, DL23, DL24>>
Floats == <<FL1, FL2, FL3, FL4, FL5, FL6, FL7, FL8, FL9, FL10, FL11>>

Esc == S(<<34, 92, 47, 8, 12, 10, 13, 9, 1, 31, 127, 195, 169, 32>>)
Str(k) == S(Rep(120, k))
Ints(k) == [j \in 1..k |-> I(j)]

Scalars == <<Z, NONE, BT, BF, I(0), I(7), I(-45), I(2147483647), IMin, NaN, NaNF, PInf, NInf, NInfF,
             S(<<>>), S(<<97>>), Esc, S(<<47, 47, 32, 42, 47>>)>> \o Doubles \o Floats
Arrays == <<
   A(<<>>), A(<<I(1)>>), A(<<I(1), I(2), I(3)>>), A(Ints(10)), A(Ints(11)), A(Ints(16)), A(Ints(17)), A(Ints(33)),
   A(<<A(<<>>)>>), A(<<O(<<>>)>>), A(<<A(<<I(1), I(2)>>), A(<<I(3)>>)>>), A(<<A(<<A(<<I(1)>>)>>)>>),
   A(<<I(1), A(<<I(2), I(3)>>)>>), A(<<I(1), A(<<A(<<I(2)>>)>>)>>), A(<<I(1), O(<< <<Kk, I(2)>> >>)>>),
   A(<<O(<< <<Kk, I(1)>> >>), O(<< <<Kk, I(2)>>, <<Ka, BT>> >>)>>),
   A(Rep(Str(25), 4)), A(<<Str(25), Str(25), Str(25), Str(26)>>), A(<<Str(101)>>), A(<<Str(100)>>),
   A(Rep(S(<<97>>), 11)), A(Rep(S(<<97>>), 10)), A(<<Str(1), A(Ints(3))>>), A(<<Str(98), A(Ints(3))>>), A(<<I(1), Str(120)>>),
   A(<<Str(40), O(<< <<Ka, I(1)>>, <<Kb, NONE>>, <<Kk, Z>> >>), Str(58)>>),
   A(<<NONE, I(1)>>), A(<<I(1), NONE, Z>>), A(<<NaN, PInf, NInf, DL3>>), A(<<DL1, FL1, DL14, FL7>>), A(<<BT, BF, Z>>),
   A(<<A(Ints(11)), A(Ints(2))>>), A([j \in 1..12 |-> IF j = 5 THEN A(<<I(1)>>) ELSE I(j)]),
   A(<<Esc, Esc>>), A([j \in 1..17 |-> DL3]),
   A(Ints(32)), A(Ints(49)), A(<<A(Ints(17))>>), A(<<A(<<A(Ints(17)), A(<<>>)>>), I(1)>>), A(<<Str(50), I(1), I(2), Str(50)>>),
   A(<<Str(50), I(1), I(2), Str(51)>>), A([j \in 1..20 |-> IF j % 2 = 0 THEN BT ELSE Z]) >>
Objects == <<
   O(<<>>), O(<< <<Kk, I(1)>> >>), O(<< <<Kb, I(1)>>, <<Ka, I(2)>> >>), O(<< <<Kk, I(1)>>, <<KZ, I(2)>>, <<Kk2, I(3)>>, <<Ka, S(<<97>>)>> >>),
   O(<< <<Kk, NONE>> >>), O(<< <<Ka, NONE>>, <<Kb, I(1)>> >>), O(<< <<Ka, I(1)>>, <<Kb, NONE>>, <<Kk, I(2)>> >>),
   O(<< <<Ka, I(1)>>, <<Kb, NONE>> >>),
   O(<< <<Kk, O(<< <<Kk2, A(<<I(1), I(2)>>)>> >>)>> >>), O(<< <<Kk, A(<<A(<<I(1)>>), A(<<I(2)>>)>>)>> >>),
   O(<< <<Kk, A(Ints(12))>>, <<Ka, A(<<>>)>>, <<Kb, O(<<>>)>> >>), O(<< <<Kk, O(<< <<Kk, O(<< <<Kk, O(<<>>)>> >>)>> >>)>> >>),
   O(<< <<WTypeKey, S(<<84>>)>>, <<Ka, I(1)>> >>), O(<< <<WTypeKey, S(<<84, 95, 49>>)>> >>),
   O(<< <<Ka, O(<< <<WTypeKey, S(<<80, 116>>)>>, <<Kk, DL3>>, <<Kb, BT>> >>)>>, <<WTypeKey, S(<<84>>)>> >>),
   A(<<O(<< <<WTypeKey, S(<<65>>)>>, <<Kk, I(1)>> >>), O(<< <<Kk, I(2)>> >>)>>),
   O(<< <<Ka, NaN>>, <<Kb, NInf>>, <<Kk, Esc>>, <<Kk2, BF>>, <<KZ, Z>> >>),
   O(<< <<Ka, A(Rep(Str(30), 4))>>, <<Kb, A(<<BT, BF>>)>> >>),
   O(<< <<Kk, O(<< <<Kk2, A(Ints(17))>>, <<Ka, A(<<O(<<>>), O(<< <<Ka, NONE>> >>)>>)>> >>)>> >>),
   O(<< <<WTypeKey, S(<<110, 115, 46, 84>>)>>, <<Ka, NONE>> >>) >>
\* keys that are not identifiers: JSON dialect only
JsonOnly == << O(<< <<<<34, 92, 1>>, I(1)>> >>), O(<< <<<<>>, I(1)>>, <<<<97, 32, 98>>, I(2)>>, <<<<47>>, Z>> >>),
               O(<< <<<<195, 169>>, I(1)>>, <<<<49>>, A(<<O(<< <<<<61>>, BT>> >>)>>)>> >>) >>
Trees == Scalars \o Arrays \o Objects \o JsonOnly
NT == Len(Trees)
FirstJsonOnly == Len(Scalars) + Len(Arrays) + Len(Objects) + 1

Modes == IF ModeSet = "all64" THEN [j \in 1..64 |-> j - 1]         \* thorough tier: every value of the six flag bits
         ELSE IF ModeSet = "all"
         THEN <<0, 1, 2, 3, 8, 9, 10, 11, 32, 33, 34, 35, 40, 41, 42, 43, 4, 12, 16 + 9, 4 + 16 + 3>>
         ELSE <<0, 1, 8, 9, 3, 11, 32 + 8>>
NM == Len(Modes)
Total == NT * NM
TreeIdx(c) == ((c - 1) \div NM) + 1
TreeOf(c) == Trees[TreeIdx(c)]
ModeOf(c) == Modes[((c - 1) % NM) + 1]
XdlApplies(c) == TreeIdx(c) < FirstJsonOnly
ActOf(c) == LET i == TreeIdx(c) IN
            IF i <= Len(Scalars) THEN "WScalar" ELSE IF i <= Len(Scalars) + Len(Arrays) THEN "WArray"
            ELSE IF i < FirstJsonOnly THEN "WObject" ELSE "WJsonKeys"

\* the enumeration is one chain 0 -> 1 -> ... -> Total; every Seg-th state of it is also an initial state, so that TLC's workers
\* walk the segments in parallel (an initial state equals the state reached by stepping: nothing is visited or printed twice)
Seg == 64
WInit == n \in {j \in 0..(Total - 1) : j % Seg = 0} /\ act = (IF n = 0 THEN "Init" ELSE ActOf(n))
WNext == n < Total /\ n' = n + 1 /\ act' = ActOf(n + 1)
WSpec == WInit /\ [][WNext]_wvars

\* ---- laws ----
JsonLaw == (n >= 1 /\ IsJson(ModeOf(n))) =>
              LET r == Doc(Ser(TreeOf(n), ModeOf(n))) IN r.ok /\ ~r.ex /\ WDenotes(r.v, Lossy(TreeOf(n)), ModeOf(n))
XdlLaw == (n >= 1 /\ ~IsJson(ModeOf(n)) /\ XdlApplies(n)) =>
              LET r == Decode(Ser(TreeOf(n), ModeOf(n))) IN r.ok /\ WDenotes(r.v, Lossy(TreeOf(n)), ModeOf(n))
\* layout of the text outside strings
LayoutLaw == (n >= 1 /\ (IsJson(ModeOf(n)) \/ XdlApplies(n))) =>
    LET m == ModeOf(n)
        u == Unquoted(Ser(TreeOf(n), m), 1, FALSE)
        L == Len(u)
    IN IF Pretty(m)
       THEN /\ u[L] = 10 /\ (L > 1 => u[L - 1] # 10)
            /\ \A i \in 1..(L - 1) : /\ (u[i] = 10 => u[i + 1] # 10)                    \* no blank line
                                     /\ (u[i] = 32 => u[i + 1] \notin {10, 32})          \* no trailing / double space
                                     /\ (u[i + 1] = 9 => u[i] \in {9, 10})               \* TABs only as indentation
       ELSE \A i \in 1..L : u[i] \notin {9, 10, 13, 32}
\* the specification's own serializer keeps the documented promises of the flags (XdlWriter!ModePromises)
PromiseLaw == (n >= 1 /\ (IsJson(ModeOf(n)) \/ XdlApplies(n))) => ModePromises(Ser(TreeOf(n), ModeOf(n)), ModeOf(n), TreeOf(n))
ModeLaw == n >= 1 => \A x \in {0, 4, 16, 20} : Ser(TreeOf(n), (ModeOf(n) % 4) + 8 * ((ModeOf(n) \div 8) % 2) + 32 * ((ModeOf(n) \div 32) % 2) + x)
                                                 = Ser(TreeOf(n), ModeOf(n))

\* ---- what decoding the text must give (for the replayer): numbers as bit patterns ----
RECURSIVE WExp(_)
WExp(t) ==
    LET k == WKind(t) IN
    IF k = "i" THEN [n |-> <<>>, d |-> IntToDbl(t.i), x |-> 1]
    ELSE IF k = "inf" THEN [n |-> <<>>, d |-> <<IF t.inf = 1 THEN 65520 ELSE 32752, 0, 0, 0>>, x |-> 1]
    ELSE IF k = "d" THEN [n |-> <<>>, d |-> t.d]
    ELSE IF k = "f" THEN [n |-> <<>>, d |-> <<>>, f32 |-> t.f]
    ELSE IF k = "a" THEN [a |-> [j \in 1..Len(t.a) |-> WExp(t.a[j])]]
    ELSE IF k = "o" THEN [o |-> [j \in 1..Len(t.o) |-> <<t.o[j][1], WExp(t.o[j][2])>>]]
    ELSE t
RECURSIVE Bare(_)
\* the tree without the digit tables (what the replayer needs to build the Var)
Bare(t) == LET k == WKind(t) IN
           IF k = "d" THEN [d |-> t.d] ELSE IF k = "f" THEN [f |-> t.f]
           ELSE IF k = "a" THEN [a |-> [j \in 1..Len(t.a) |-> Bare(t.a[j])]]
           ELSE IF k = "o" THEN [o |-> [j \in 1..Len(t.o) |-> <<t.o[j][1], Bare(t.o[j][2])>>]]
           ELSE t
WEmit == LET t == TreeOf(n')
             m == ModeOf(n')
         IN PrintT(ToJson([c |-> n', act |-> act', tree |-> Bare(t), ti |-> TreeIdx(n'), mode |-> m, text |-> Ser(t, m), lay |-> ~Undocumented(m),
                           exp |-> WExp(Lossy(t)), approx |-> (Simple(m) \/ ShortF(m)), xdl |-> XdlApplies(n'), hz |-> {}]))
===============================================================================
