------------------------------- MODULE Trace_Utf -------------------------------
(* V binding for C08: validates what the real library returned (harness/c08_record.cpp) against the operators of
   Utf.tla.  One ndjson line per input:
     text   code points cs, the bytes s the library's encoders produced for them, and the observation o of s:
            s = Enc8Seq(cs) (standard encoding) and everything in o is what the standard determines (ValidTextOK)
     bytes  an arbitrary byte string s (no NUL), its observation, a partner t with its lower-cased form and the verdict of
            equalsNocase: the bounds of AnyBytesOK, the standard's values if s happens to be well-formed, the C-locale
            case maps if s is ASCII, and  equalsNocase(s,t) <=> lower(s) = lower(t)
     agg    an exhaustively enumerated family of strings (first byte b0, length len): all 255^(len-1) strings were
            run (or skipped as instances of an open known finding), the maxima of (result size - bound) are <= 0 and the equalsNocase relation never failed
     cp     one code point c of the recorded case walk: its bytes s, toUpperCase (up), toLowerCase (lo) and toLowerCase of
            lo (ll): s = Enc8(c), both results are well-formed UTF-8 and not longer than s, lower-casing is
            idempotent, ASCII follows the C locale
   Growth: every "text", "bytes" and "cp" line is also compared with the transcription of the library's loops and case
   tables (UtfLax.tla, UtfCase.tla, UtfCaseData.tla).  That comparison never rejects a trace: where the property
   leaves the value open (any result on ill-formed input; which letters have a case partner) a difference is a
   *deviation*; dv counts the deviating lines and the last step writes the count to <trace>.dev for the check's
   evidence.  Rejection is reserved for the property: the standard's values on well-formed text, bounds, no growth,
   well-formed in => well-formed out, equalsNocase <=> equal lower-cased forms, ASCII = C locale.
   The trace is accepted iff every line satisfies its predicate.                                                   *)
EXTENDS UtfCase, Integers, TLC, Json, IOUtils

T == ndJsonDeserialize(IOEnv.TRACE)
VARIABLES l, dv
TInit == l = 1 /\ dv = 0

NoNul(s) == \A i \in 1..Len(s) : s[i] # 0
\* dataw()/wlength() are the UTF-16 form read as a wide C string (it ends at the first 0 unit, which only ill-formed
\* input can produce)
WideOK(s, o) == /\ o.dw = CStr(o.w) /\ o.wl = Len(o.dw)

\* the observation is what the transcribed loops compute on these very bytes (well-formed or not)
LaxObsOK(s, o) == /\ o.it = EnumSeq(s) /\ o.cs = U32Seq(s) /\ o.c32 = U32Seq(s) /\ o.n = CountOf(s)
                  /\ o.w = U16Seq(s) /\ o.b8 = W8Seq(o.w)
                  /\ o.up = UpperBytes(s) /\ o.lo = LowerBytes(s)

TextOK(e) == /\ \A i \in 1..Len(e.cs) : IsScalar(e.cs[i]) /\ e.cs[i] # 0
             /\ e.s = Enc8Seq(e.cs)
             /\ Dec8Seq(e.s) = [ok |-> TRUE, cs |-> e.cs]
             /\ ObsOK(e.s, e.o)
             /\ WideOK(e.s, e.o)
             /\ WellFormed8(e.o.up) /\ WellFormed8(e.o.lo)
             /\ Dec16Seq(e.o.w) = [ok |-> TRUE, cs |-> e.cs]

BytesOK(e) == /\ NoNul(e.s) /\ NoNul(e.t)
              /\ ObsOK(e.s, e.o)
              /\ WideOK(e.s, e.o)
              /\ Len(e.tlo) <= Len(e.t)
              /\ (WellFormed8(e.s) => WellFormed8(e.o.up) /\ WellFormed8(e.o.lo))
              /\ NoCaseOK(e.eq = 1, e.o.lo, e.tlo)
              /\ (IsAscii(e.s) /\ IsAscii(e.t)) => ((e.eq = 1) = (AsciiLower(e.s) = AsciiLower(e.t)))

CpOK(e) == /\ IsScalar(e.c) /\ e.c # 0 /\ e.s = Enc8(e.c)
           /\ WellFormed8(e.up) /\ WellFormed8(e.lo)
           /\ Len(e.up) <= Len(e.s) /\ Len(e.lo) <= Len(e.s)
           /\ e.ll = e.lo
           /\ (e.c < 128 => e.up = <<UpB(e.c)>> /\ e.lo = <<LoB(e.c)>>)

\* differences from the transcription that are not violations (see the header)
Deviates(e) == IF e.e = "text" THEN ~(e.o.up = UpperBytes(e.s) /\ e.o.lo = LowerBytes(e.s))
               ELSE IF e.e = "bytes" THEN ~(LaxObsOK(e.s, e.o) /\ e.tlo = LowerBytes(e.t) /\ (e.eq = 1) = EqualsNocase(e.s, e.t))
               ELSE IF e.e = "cp" THEN ~(e.up = UpperBytesCp(e.c) /\ e.lo = LowerBytesCp(e.c))
               ELSE FALSE

RECURSIVE Pow(_, _)
Pow(b, n) == IF n = 0 THEN 1 ELSE b * Pow(b, n - 1)
AggOK(e) == /\ e.b0 \in 1..255 /\ e.len \in 1..3
            /\ e.count + e.skipped = Pow(255, e.len - 1)     \* skipped: inputs excluded because of an open known finding
            /\ e.mx.n <= 0 /\ e.mx.cs <= 0 /\ e.mx.c32 <= 0 /\ e.mx.it <= 0 /\ e.mx.w <= 0
            /\ e.mx.b8 <= 0 /\ e.mx.up <= 0 /\ e.mx.lo <= 0
            /\ e.neq = 0

TStep == /\ l <= Len(T)
         /\ l' = l + 1
         /\ LET e == T[l] IN
            \/ e.e = "reset"
            \/ e.e = "text" /\ TextOK(e)
            \/ e.e = "bytes" /\ BytesOK(e)
            \/ e.e = "agg" /\ AggOK(e)
            \/ e.e = "cp" /\ CpOK(e)
         /\ dv' = dv + (IF Deviates(T[l]) THEN 1 ELSE 0)
         /\ (l = Len(T) => JsonSerialize(IOEnv.TRACE \o ".dev", [dev |-> dv', lines |-> Len(T)]))
TraceSpec == TInit /\ [][TStep]_<<l, dv>>
TraceAccepted == TLCGet("stats").diameter - 1 = Len(T)
===============================================================================
