------------------------------- MODULE Trace_Utf -------------------------------
(* V binding for C08: validates what the real library returned (harness/c08_record.cpp) against the operators of
   Utf.tla.  One ndjson line per input:
     text   code points cs, the bytes s the library's encoders produced for them, and the observation o of s:
            s = Enc8Seq(cs) (standard encoding) and everything in o is what the standard determines (ValidTextOK)
     bytes  an arbitrary byte string s (no NUL), its observation, a partner t with its lower-cased form and the verdict of
            equalsNocase: the bounds of AnyBytesOK, the standard's values if s happens to be well-formed, the C-locale
            case maps if s is ASCII, and  equalsNocase(s,t) <=> lower(s) = lower(t)
     agg    an exhaustively enumerated family of strings (first byte b0, length len): all 255^(len-1) strings were
            run (or skipped as instances of an open known finding), the maxima of (result size - bound) are <= 0 and the equalsNocase relation never failed
   The trace is accepted iff every line satisfies its predicate.                                                   *)
EXTENDS Utf, Integers, TLC, Json, IOUtils

T == ndJsonDeserialize(IOEnv.TRACE)
VARIABLE l
TInit == l = 1

NoNul(s) == \A i \in 1..Len(s) : s[i] # 0
\* dataw()/wlength() are the UTF-16 form read as a wide C string (it ends at the first 0 unit, which only ill-formed
\* input can produce)
WideOK(s, o) == /\ o.dw = CStr(o.w) /\ o.wl = Len(o.dw)

TextOK(e) == /\ \A i \in 1..Len(e.cs) : IsScalar(e.cs[i]) /\ e.cs[i] # 0
             /\ e.s = Enc8Seq(e.cs)
             /\ Dec8Seq(e.s) = [ok |-> TRUE, cs |-> e.cs]
             /\ ObsOK(e.s, e.o)
             /\ WideOK(e.s, e.o)
             /\ Dec16Seq(e.o.w) = [ok |-> TRUE, cs |-> e.cs]

BytesOK(e) == /\ NoNul(e.s) /\ NoNul(e.t)
              /\ ObsOK(e.s, e.o)
              /\ WideOK(e.s, e.o)
              /\ Len(e.tlo) <= Len(e.t)
              /\ NoCaseOK(e.eq = 1, e.o.lo, e.tlo)
              /\ (IsAscii(e.s) /\ IsAscii(e.t)) => ((e.eq = 1) = (AsciiLower(e.s) = AsciiLower(e.t)))

RECURSIVE Pow(_, _)
Pow(b, n) == IF n = 0 THEN 1 ELSE b * Pow(b, n - 1)
AggOK(e) == /\ e.b0 \in 1..255 /\ e.len \in 1..3
            /\ e.count + e.skipped = Pow(255, e.len - 1)     \* skipped: inputs excluded because of an open known finding
            /\ e.mx.n <= 0 /\ e.mx.cs <= 0 /\ e.mx.c32 <= 0 /\ e.mx.it <= 0 /\ e.mx.w <= 0
            /\ e.mx.b8 <= 0 /\ e.mx.up <= 0 /\ e.mx.lo <= 0
            /\ e.neq = 0

TStep == /\ l <= Len(T)
         /\ l' = l + 1
         /\ LET e == T[l] IN
            \/ e.e = "reset"
            \/ e.e = "text" /\ TextOK(e)
            \/ e.e = "bytes" /\ BytesOK(e)
            \/ e.e = "agg" /\ AggOK(e)
TraceSpec == TInit /\ [][TStep]_l
TraceAccepted == TLCGet("stats").diameter - 1 = Len(T)
===============================================================================
