SPECIFICATION XSpec
CONSTANTS
 MaxTokens = 8
 MaxCtx = 4
 MaxBuf = 3
 QKeySlashIsComment = FALSE
VIEW CtlView
ACTION_CONSTRAINTS Bounded XEmit
INVARIANTS NoUnderflow ChunkInvisible RefinesRecognizer
CHECK_DEADLOCK FALSE
