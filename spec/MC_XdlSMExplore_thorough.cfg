SPECIFICATION XSpec
CONSTANTS
 MaxTokens = 6
 MaxCtx = 3
 MaxBuf = 3
 QKeySlashIsComment = FALSE
VIEW CtlView
ACTION_CONSTRAINTS Bounded XEmit
INVARIANTS NoUnderflow ChunkInvisible RefinesRecognizer
CHECK_DEADLOCK FALSE
