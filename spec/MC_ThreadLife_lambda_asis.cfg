SPECIFICATION FairSpec
CONSTANTS
 Flavour = "lambda"
 SelfCopy = TRUE
INVARIANTS RunsOnce JoinAfterBody FinishedAfterJoin
PROPERTY Terminates
CHECK_DEADLOCK FALSE
