SPECIFICATION Spec
CONSTANTS
 Files = {1,2}
 Cats = {1}
 Decor = {0}
 Via = {0}
 Levels = {0,4}
 MaxLevels = {4}
 MsgLens = {8,1000001}
 DateLen = 19
 RotLo = 1000000
 RotHi = 1000000
 MaxOps = 8
 ViewOps = 0
 KeepHist = TRUE
VIEW View
INVARIANTS TypeOK OrderInv SuffixInv SizeInv
PROPERTIES FilterProp WrittenProp
CHECK_DEADLOCK FALSE
