SPECIFICATION Spec
CONSTANTS
 Alpha = {65, 195, 169, 226, 130, 172, 240, 159, 152, 128, 237, 160, 255}
 MaxLen = 5
INVARIANTS LawsOK
ACTION_CONSTRAINT Emit
CHECK_DEADLOCK FALSE
