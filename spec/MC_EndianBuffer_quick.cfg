SPECIFICATION BSpec
CONSTANTS
 Native = "LITTLE"
 ScalarTypes = {"u32"}
 ArrayTypes = {"i16"}
 ArrayLens = {2}
 NVals = 1
 MaxOps = 4
 PoolTypeSeqs <- PoolsNone
 PoolLens <- LensNone
 PoolSetIdx = {}
 KeepHist = TRUE
 BufCtors = {"DEFAULT", "BIG"}
 ReaderCtors = {"DEFAULT", "BIG"}
 RawChunks <- ChunksQ
 Windows <- WindowsQ
 ReadTypes = {"u8", "i16", "f32"}
 ByteCounts = {0, 3}
VIEW BView
ACTION_CONSTRAINT BEmit
INVARIANTS BTypeOK ContentOK ReaderFaithful ExhaustionReported
PROPERTIES BOrderOnlyLater Independent Forward
CHECK_DEADLOCK FALSE
