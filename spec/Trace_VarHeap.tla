---------------------------- MODULE Trace_VarHeap ----------------------------
(* V binding for C04: validates executions recorded from the real asl::Var (harness/c04_record.cpp) against the
   actions and operators of VarHeap.  One ndjson line per public call: op, paths, arguments, and after the call the
   type() and length() of the slot it went through; "check" events carry the complete tree of every root (kinds,
   scalar values, reference counts of the shared containers, items in order); "eq" and "facts" events carry the
   result of a comparison and of every accessor/conversion, which must equal the specification's EqR / Facts.
   The trace is accepted iff every line is a step of the corresponding VarHeap action whose post-state matches.
   Growth (VarApi): "assignTyped" / "assignC" calls, enumerations logged as enumBegin / enumNext (key, type and text of
   the delivered item, the value assigned through the reference) / enumEnd with other calls in between (every such
   call must satisfy EnumStable), and "facts" events that carry the wide observation g = Facts2 of the slot.        *)
EXTENDS VarApi, IOUtils

T == ndJsonDeserialize(IOEnv.TRACE)
VARIABLE l
tvars == <<vars, en, l>>

TInit == InitApi /\ l = 1

PostOK(e) == LET x == SlotVal(heap', root', e.p) IN
             /\ x # Missing
             /\ TypeCode(heap', x) = e.ty
             /\ LengthOf(heap', x) = e.len
CheckOK(e) == /\ Len(e.roots) = NR
              /\ \A r \in 1..NR : CheckTree(heap, root[r]) = e.roots[r]
EqOK(e) == /\ IsSlot(e.p) /\ IsSlot(e.q)
           /\ LET want == EqR(heap, SlotVal(heap, root, e.p), SlotVal(heap, root, e.q)) IN
              CASE want = "t" -> e.r = 1 /\ e.nr = 0
                [] want = "f" -> e.r = 0 /\ e.nr = 1
                [] OTHER -> TRUE
FactsOK(e) == /\ IsSlot(e.p)
              /\ LET f == Facts(heap, SlotVal(heap, root, e.p)) IN
                 /\ f.ty = e.f.ty /\ f.isn = e.f.isn /\ f.len = e.f.len /\ f.i = e.f.i /\ f.d2 = e.f.d2
                 /\ f.b = e.f.b /\ f.s = e.f.s /\ f.cont = e.f.cont
              /\ LET g == Facts2(heap, SlotVal(heap, root, e.p)) IN
                 /\ g.ai = e.g.ai /\ g.ad = e.g.ad /\ g.ab = e.g.ab /\ g.as = e.g.as
                 /\ g.oi = e.g.oi /\ g.od = e.g.od /\ g.ob = e.g.ob /\ g.os = e.g.os
                 /\ g.has = e.g.has /\ g.call = e.g.call /\ g.call2 = e.g.call2 /\ g.rd = e.g.rd
                 /\ g.cidx = e.g.cidx /\ g.ord = e.g.ord /\ g.arrof = e.g.arrof
                 \* == with literals: 1 / 0 where the specification decides, anything where it is open; 2 = the spellings disagree
                 /\ Len(e.g.eql) = Len(g.eql)
                 /\ \A j \in 1..Len(g.eql) : CASE g.eql[j] = "t" -> e.g.eql[j] = 1 [] g.eql[j] = "f" -> e.g.eql[j] = 0 [] OTHER -> TRUE
\* the item an enumeration step delivered and what the loop body assigned to it
EnumNextT(e) == /\ e.set \in ScalarsAll \cup {Keep}
                /\ EnumNext(e.set)
                /\ LET r == hist'[Len(hist')] IN r.k = e.k /\ r.ty = e.ty /\ r.s = e.s
EnumEndT(e) == /\ EnumEnd
               /\ hist'[Len(hist')].more = e.more

\* the calls of VarHeap / VarApi outside enumerations
TCall(e) ==
     \/ /\ e.op = "assignScalar" /\ e.val \in {ScalarTab[i] : i \in 1..Len(ScalarTab)}
        /\ IsSlot(e.p) /\ Commit(Store(heap, root, e.p, e.val), [op |-> "assignScalar", p |-> e.p, val |-> e.val], {})
        /\ PostOK(e)
     \/ /\ e.op = "assignFrom" /\ AssignFrom(e.p, e.q) /\ PostOK(e)
     \/ /\ e.op = "assignNew" /\ AssignNew(e.p, e.shape) /\ PostOK(e)
     \/ /\ e.op = "assignTyped" /\ AssignTyped(e.p, e.kind, e.T, e.n) /\ PostOK(e)
     \/ /\ e.op = "assignC" /\ AssignC(e.p, e.ct, e.n) /\ PostOK(e)
     \/ /\ e.op = "assignKind" /\ AssignKind(e.p, e.c) /\ PostOK(e)
     \/ /\ e.op = "indexInt" /\ IndexInt(e.p, e.i) /\ PostOK(e)
     \/ /\ e.op = "indexKey" /\ IndexKey(e.p, e.k) /\ PostOK(e)
     \/ /\ e.op = "appendScalar" /\ e.val \in {ScalarTab[i] : i \in 1..Len(ScalarTab)}
        /\ IsSlot(e.p) /\ AppendTo(e.p, e.val, [op |-> "appendScalar", p |-> e.p, val |-> e.val], {})
        /\ PostOK(e)
     \/ /\ e.op = "appendFrom" /\ AppendFrom(e.p, e.q) /\ PostOK(e)
     \/ /\ e.op = "resize" /\ Resize(e.p, e.n) /\ PostOK(e)
     \/ /\ e.op = "clear" /\ Clear(e.p) /\ PostOK(e)
     \/ /\ e.op = "removeAt" /\ (IF e.n = 1 THEN RemoveIdx(e.p, e.i) ELSE RemoveN(e.p, e.i, e.n)) /\ PostOK(e)
     \/ /\ e.op = "removeKey" /\ RemoveKey(e.p, e.k) /\ PostOK(e)
     \/ /\ e.op = "extend" /\ IsSlot(e.q)
        /\ (IF Kind(heap, SlotVal(heap, root, e.q)) = "obj" THEN Extend(e.p, e.q) ELSE ExtendNonObj(e.p, e.q)) /\ PostOK(e)
     \/ /\ e.op = "clone" /\ Clone(e.p[1], e.q) /\ PostOK(e)
EnumOps == {"enumBegin", "enumNext", "enumEnd"}
TStep ==
  /\ l <= Len(T)
  /\ l' = l + 1
  /\ LET e == T[l] IN
     \/ /\ e.op = "reset"
        /\ root' = [r \in 1..NR |-> NoneV]
        /\ heap' = [n \in Nodes |-> FreeNode]
        /\ hist' = <<>> /\ hz' = {} /\ en' = NoEnum
     \/ /\ e.op = "check" /\ CheckOK(e) /\ UNCHANGED <<vars, en>>
     \/ /\ e.op = "eq" /\ EqOK(e) /\ UNCHANGED <<vars, en>>
     \/ /\ e.op = "facts" /\ FactsOK(e) /\ UNCHANGED <<vars, en>>
     \/ /\ e.op \notin {"reset", "check", "eq", "facts"} \cup EnumOps
        /\ TCall(e) /\ en' = en /\ EnumStable
     \/ /\ e.op = "enumBegin" /\ EnumBegin(e.p)
     \/ /\ e.op = "enumNext" /\ EnumNextT(e)
     \/ /\ e.op = "enumEnd" /\ EnumEndT(e)

TraceSpec == TInit /\ [][TStep]_tvars
TraceAccepted == TLCGet("stats").diameter - 1 = Len(T)
===============================================================================
