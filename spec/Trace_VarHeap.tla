---------------------------- MODULE Trace_VarHeap ----------------------------
(* V binding for C04: validates executions recorded from the real asl::Var (harness/c04_record.cpp) against the
   actions and operators of VarHeap.  One ndjson line per public call: op, paths, arguments, and after the call the
   type() and length() of the slot it went through; "check" events carry the complete tree of every root (kinds,
   scalar values, reference counts of the shared containers, items in order); "eq" and "facts" events carry the
   result of a comparison and of every accessor/conversion, which must equal the specification's EqR / Facts.
   The trace is accepted iff every line is a step of the corresponding VarHeap action whose post-state matches. *)
EXTENDS VarHeap, IOUtils

T == ndJsonDeserialize(IOEnv.TRACE)
VARIABLE l
tvars == <<vars, l>>

TInit == Init /\ l = 1

PostOK(e) == LET x == SlotVal(heap', root', e.p) IN
             /\ x # Missing
             /\ TypeCode(heap', x) = e.ty
             /\ LengthOf(heap', x) = e.len
CheckOK(e) == /\ Len(e.roots) = NR
              /\ \A r \in 1..NR : CheckTree(heap, root[r]) = e.roots[r]
EqOK(e) == /\ IsSlot(e.p) /\ IsSlot(e.q)
           /\ LET want == EqR(heap, SlotVal(heap, root, e.p), SlotVal(heap, root, e.q)) IN
              CASE want = "t" -> e.r = 1 /\ e.nr = 0
                [] want = "f" -> e.r = 0 /\ e.nr = 1
                [] OTHER -> TRUE
FactsOK(e) == /\ IsSlot(e.p)
              /\ LET f == Facts(heap, SlotVal(heap, root, e.p)) IN
                 /\ f.ty = e.f.ty /\ f.isn = e.f.isn /\ f.len = e.f.len /\ f.i = e.f.i /\ f.d2 = e.f.d2
                 /\ f.b = e.f.b /\ f.s = e.f.s /\ f.cont = e.f.cont

TStep ==
  /\ l <= Len(T)
  /\ l' = l + 1
  /\ LET e == T[l] IN
     \/ /\ e.op = "reset"
        /\ root' = [r \in 1..NR |-> NoneV]
        /\ heap' = [n \in Nodes |-> FreeNode]
        /\ hist' = <<>> /\ hz' = {}
     \/ /\ e.op = "check" /\ CheckOK(e) /\ UNCHANGED vars
     \/ /\ e.op = "eq" /\ EqOK(e) /\ UNCHANGED vars
     \/ /\ e.op = "facts" /\ FactsOK(e) /\ UNCHANGED vars
     \/ /\ e.op = "assignScalar" /\ e.val \in {ScalarTab[i] : i \in 1..Len(ScalarTab)}
        /\ IsSlot(e.p) /\ Commit(Store(heap, root, e.p, e.val), [op |-> "assignScalar", p |-> e.p, val |-> e.val], {})
        /\ PostOK(e)
     \/ /\ e.op = "assignFrom" /\ AssignFrom(e.p, e.q) /\ PostOK(e)
     \/ /\ e.op = "assignNew" /\ AssignNew(e.p, e.shape) /\ PostOK(e)
     \/ /\ e.op = "indexInt" /\ IndexInt(e.p, e.i) /\ PostOK(e)
     \/ /\ e.op = "indexKey" /\ IndexKey(e.p, e.k) /\ PostOK(e)
     \/ /\ e.op = "appendScalar" /\ e.val \in {ScalarTab[i] : i \in 1..Len(ScalarTab)}
        /\ IsSlot(e.p) /\ AppendTo(e.p, e.val, [op |-> "appendScalar", p |-> e.p, val |-> e.val], {})
        /\ PostOK(e)
     \/ /\ e.op = "appendFrom" /\ AppendFrom(e.p, e.q) /\ PostOK(e)
     \/ /\ e.op = "resize" /\ Resize(e.p, e.n) /\ PostOK(e)
     \/ /\ e.op = "clear" /\ Clear(e.p) /\ PostOK(e)
     \/ /\ e.op = "removeAt" /\ RemoveIdx(e.p, e.i) /\ PostOK(e)
     \/ /\ e.op = "removeKey" /\ RemoveKey(e.p, e.k) /\ PostOK(e)
     \/ /\ e.op = "extend" /\ Extend(e.p, e.q) /\ PostOK(e)
     \/ /\ e.op = "clone" /\ Clone(e.p[1], e.q) /\ PostOK(e)

TraceSpec == TInit /\ [][TStep]_tvars
TraceAccepted == TLCGet("stats").diameter - 1 = Len(T)
===============================================================================
