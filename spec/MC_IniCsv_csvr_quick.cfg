SPECIFICATION Spec
CONSTANTS
 Part = "csvr"
 IniLines <- NoLines
 MaxLines = 3
 SetNames <- NoNames
 SetValues <- Values
 MaxSets = 0
 Cells <- NoCells
 MaxCols = 1
 MaxCells = 0
 CsvLinesOf <- CsvLinesS
 CsvTypes <- CsvTypesS
ACTION_CONSTRAINT Emit
INVARIANTS CsvRLaw
CHECK_DEADLOCK FALSE
