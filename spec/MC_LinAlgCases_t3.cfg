SPECIFICATION Spec
CONSTANTS
 P = 3
 N = 3
 NSq = 19683
 NMul = 160
 NLsqA = 6561
 NLsqB = 40
ACTION_CONSTRAINT Emit
INVARIANTS InverseIdentity TwoFormulations SolveIdentity DetProduct NormalEquations
CHECK_DEADLOCK FALSE
