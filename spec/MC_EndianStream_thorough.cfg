SPECIFICATION Spec
CONSTANTS
 Native = "LITTLE"
 ScalarTypes = {"u8", "i8", "bool", "i16", "u16", "i32", "f32", "i64", "f64"}
 ArrayTypes = {"u8", "bool", "i16", "u32", "f32", "i64", "f64"}
 ArrayLens = {0, 1, 3}
 NVals = 2
 MaxOps = 4
 KeepHist = TRUE
VIEW View
ACTION_CONSTRAINT Emit
INVARIANTS TypeOK LengthOK ReadBack
PROPERTIES AppendOnly OrderOnlyLater
CHECK_DEADLOCK FALSE
