SPECIFICATION Spec
CONSTANTS
 Native = "LITTLE"
 ScalarTypes = {"u8", "i8", "bool", "i16", "u16", "i32", "f32", "i64", "f64"}
 ArrayTypes = {"u8", "bool", "i16", "u32", "f32", "i64", "f64"}
 ArrayLens = {0, 1, 3}
 NVals = 2
 MaxOps = 4
 PoolTypeSeqs <- PoolsNone
 PoolLens <- LensNone
 PoolSetIdx = {}
 KeepHist = TRUE
VIEW View
ACTION_CONSTRAINT Emit
INVARIANTS TypeOK LengthOK ReadBack WrittenObjectIntact
PROPERTIES AppendOnly OrderOnlyLater InputsUntouched
CHECK_DEADLOCK FALSE
