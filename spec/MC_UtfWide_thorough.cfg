SPECIFICATION Spec
CONSTANTS
 WAlpha = {0, 65, 127, 128, 2047, 2048, 55295, 55296, 56319, 56320, 57343, 57344, 65535}
 MaxLen = 4
INVARIANTS WideLaws
ACTION_CONSTRAINT Emit
CHECK_DEADLOCK FALSE
