--------------------------- MODULE MC_TextStream ---------------------------
(* constant sets for the TextStream configurations (tuples / records cannot be spelled in .cfg files) *)
EXTENDS TextStream

S(str) == CASE str = "abc" -> <<97, 98, 99>> [] str = "x1" -> <<120, 49>> [] str = "id" -> <<105, 100>>
            [] str = "k" -> <<107>> [] str = "-" -> <<45>> [] str = "7up" -> <<55, 117, 112>>
            [] str = "a b" -> <<97, 32, 98>> [] str = " z" -> <<32, 122>> [] str = "v=" -> <<118, 61>>

INT_MIN == <<32768, 0>>
INT_MAX == <<32767, 65535>>
MINUS1  == <<65535, 65535>>
D(neg, digs, exp) == [neg |-> neg, digs |-> digs, exp |-> exp]

IntsQ   == {MINUS1, INT_MIN}
IntsM   == {MINUS1, INT_MIN, INT_MAX}
IntsT   == IntsM \cup {<<0, 0>>, <<0, 42>>, <<0, 7>>, <<0, 10>>, <<65535, 65436>>, <<1, 0>>, <<15258, 51712>>, <<50277, 13824>>, <<0, 65535>>}
UIntsQ  == {<<65535, 65535>>}
UIntsM  == {<<0, 9>>, <<65535, 65535>>}
UIntsT  == UIntsM \cup {<<0, 0>>, <<32768, 0>>, <<39321, 39321>>, <<1, 34464>>}
\* 0.1, -2.5e-3 (fixed), 1e10 (fixed, padded), 1.5e-5 (exponent), 123456789012345 (15 digits), 0.5
DblsQ   == {D(TRUE, <<2, 5>>, -3), D(FALSE, <<1, 5>>, -5)}
DblsM   == DblsQ \cup {D(FALSE, <<1,2,3,4,5,6,7,8,9,0,1,2,3,4,5>>, 14)}
DblsT   == DblsM \cup {D(FALSE, <<1>>, -1), D(FALSE, <<1>>, 10), D(FALSE, <<>>, 0), D(TRUE, <<>>, 0), D(FALSE, <<5>>, -1), D(FALSE, <<1>>, 15), D(TRUE, <<1>>, 20), D(FALSE, <<2, 5>>, 300),
                       D(FALSE, <<1>>, -300), D(FALSE, <<1, 2, 5>>, 2), D(FALSE, <<9,9,9,9,9,9,9,9,9,9,9,9,9,9,9>>, -1), D(TRUE, <<3, 1, 4, 1, 5, 9>>, 0),
                       D(FALSE, <<1>>, -4), D(FALSE, <<1>>, 14), D(FALSE, <<7>>, 0)}
\* floats: -125, 0.5, 0.375, 1000000, 999999, 0, 1234.75 (all exactly representable)
FltsQ   == {D(TRUE, <<1, 2, 5>>, 2)}
FltsM   == FltsQ \cup {D(FALSE, <<3, 7, 5>>, -1)}
FltsT   == FltsM \cup {D(FALSE, <<5>>, -1), D(FALSE, <<1>>, 6), D(FALSE, <<9, 9, 9, 9, 9, 9>>, 5), D(FALSE, <<>>, 0), D(FALSE, <<1, 2, 3, 4, 7, 5>>, 3)}
WordsQ  == {S("id")}
WordsM  == {S("id"), S("7up")}
LongWord == [i \in 1..260 |-> 97 + (i % 26)]      \* >> String delivers it in two pieces (255 + 5)
WordsT  == {S("abc"), S("id"), S("x1"), S("7up"), S("-"), LongWord}
RawsQ   == {}
RawsM   == {S("a b")}
RawsT   == {S("a b"), S(" z")}
CharsQ  == {120}
CharsM  == {10}
CharsT  == {120, 10, 55}
SepsQ   == <<<<32>>, <<10>>, <<13, 10>>, <<9>>, <<32, 32, 10, 9>>>>
SepsT   == SepsQ \o <<<<11, 12>>, <<10, 10>>>>
HowsQ   == <<"str", "cstr", "write", "append", "put">>

Lit(s) == [k |-> "lit", s |-> s]
Cv(k)  == [k |-> k]
N(v)   == [k |-> "n", v |-> v]
Sa(s)  == [k |-> "s", s |-> s]
G(d)   == [k |-> "g", d |-> d]
Ca(c)  == [k |-> "c", c |-> c]
PfQ == { [f |-> <<Cv("d"), Lit(<<32>>), Cv("s"), Lit(<<10>>)>>, a |-> <<N(MINUS1), Sa(S("abc"))>>] }
PfM == PfQ \cup { [f |-> <<Cv("g")>>, a |-> <<G(D(TRUE, <<2, 5>>, -3))>>],
         [f |-> <<Cv("s"), Lit(<<61>>), [k |-> "dw", w |-> 5], Lit(<<59>>)>>, a |-> <<Sa(S("k")), N(<<0, 42>>)>>] }
PfT == PfM \cup {
         [f |-> <<Cv("i"), Lit(<<9>>), Cv("u"), Lit(<<13, 10>>)>>, a |-> <<N(INT_MIN), N(MINUS1)>>],
         [f |-> <<Cv("d"), Lit(<<32>>), Cv("s"), Lit(<<32>>), Cv("g")>>, a |-> <<N(INT_MAX), Sa(S("x1")), G(D(FALSE, <<1, 5>>, -5))>>],
         [f |-> <<Cv("g")>>, a |-> <<G(D(FALSE, <<1>>, 10))>>],
         [f |-> <<Cv("g")>>, a |-> <<G(D(FALSE, <<1, 2, 3, 4, 5, 6>>, 5))>>],
         [f |-> <<Cv("c"), Cv("c")>>, a |-> <<Ca(52), Ca(50)>>],
         [f |-> <<Lit(S("v=")), Cv("u")>>, a |-> <<N(<<39321, 39321>>)>>],
         [f |-> <<Cv("s"), Cv("d")>>, a |-> <<Sa(S("x1")), N(<<0, 7>>)>>] }

Ws == [k |-> "ws"]
Lc(c) == [k |-> "lit", c |-> c]
SfQ == { <<Cv("d")>>, <<Cv("d"), Ws, Cv("d")>>, <<Cv("S"), Ws, Cv("F")>> }
SfM == SfQ \cup { <<Cv("F")>> }
SfT == SfM \cup { <<Cv("d"), Lc(46), Cv("d")>>, <<Cv("d"), Ws>>, <<Lc(45), Cv("d")>>, <<Cv("S")>>, <<Cv("d"), Cv("S"), Cv("F")>> }
SepsNone == <<>>
=============================================================================
