SPECIFICATION SpecX
CONSTANTS
 NH = 2
 K = {1,2,3}
 V = {1,2}
 MaxOps = 6
 KeepHist = TRUE
 MapOps = TRUE
 SetOps = FALSE
 Focus = TRUE
 Plain = FALSE
 Sizes = {}
 Lists <- MapLists
VIEW ViewX
ACTION_CONSTRAINT EmitX
INVARIANTS TypeOK NoOrphan SomeLive SetValues EnumTypeOK SizeOK EnumPartition
PROPERTIES LastCallOK Independence CloneFresh EnumStable EnumReads
CHECK_DEADLOCK FALSE
