SPECIFICATION Spec
CONSTANTS
 Profile = "thorough"
ACTION_CONSTRAINT Emit
INVARIANTS GenVsRec PathsSafe FamiliesOK
PROPERTIES PrefixMono
CHECK_DEADLOCK FALSE
