------------------------------ MODULE MC_CmdArgs ------------------------------
(* constant definitions for the model-checking configurations of CmdArgs (configuration files cannot spell sequences) *)
EXTENDS CmdArgs

\* -a  -b  -a!  -f  v  0  ""          (f is a listed flag and b needs a value in the second specification)
TokQ == { <<45, 97>>, <<45, 98>>, <<45, 97, 33>>, <<45, 102>>, <<118>>, <<48>>, <<>> }
\* thorough adds: true  -b!  -name  w=1  and tokens the documentation says nothing about:  -  --a  -5  --
TokT == TokQ \cup { <<116, 114, 117, 101>>, <<45, 98, 33>>, <<45, 110, 97, 109, 101>>, <<119, 61, 49>>,
                    <<45>>, <<45, 45, 97>>, <<45, 53>>, <<45, 45>> }
\* a 120-byte value: three of them exceed any 256-byte buffer (CmdArgs(spec) reads the arguments of the process)
LongTok == [i \in 1..120 |-> 120]
TokL == { LongTok, <<45, 97>>, <<118>> }
NoSpec == [flags |-> {}, vopts |-> {}]
FSpec == [flags |-> { <<102>> }, vopts |-> { <<98>> }]                      \* "f,b:"
SpecsQ == { NoSpec, FSpec }
SpecsL == { NoSpec }
ProbesQ == << <<97>>, <<98>>, <<102>>, <<122>> >>                           \* a b f z
ProbesT == << <<97>>, <<98>>, <<102>>, <<110, 97, 109, 101>>, <<122>> >>
===============================================================================
