SPECIFICATION FSpec
CONSTANTS
 Caps = {2, 40}
 ProbeRewinds = FALSE
 QKeySlashIsComment = FALSE
INVARIANTS FileLaw
CHECK_DEADLOCK FALSE
