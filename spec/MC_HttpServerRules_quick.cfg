SPECIFICATION Spec
CONSTANTS
 Configs <- ConfigsQuick
 ReqSet <- ReqsAll
 MaxReqs = 2
ACTION_CONSTRAINT Emit
INVARIANTS ClosedIsFinal OpenIffLastKeeps RefusalIsFinal OptionsBuiltIn CorsEcho Http10
CHECK_DEADLOCK FALSE
