------------------------------- MODULE JsonText -------------------------------
(* C05 / C06 - the JSON text language as pure TLA+ operators (no variables; the generators live in JsonTextGen,
   JsonTextXdl and JsonTextVar, the implementation-shaped parser in XdlSM, the trace specs in the Trace_JsonText modules).

   (1) a strict RFC 8259 recognizer/evaluator written as recursive-descent operators over byte codes:
         Doc(t) = [ok, v, p, ex]    v = value, p = next position, ex = TRUE when the document uses something the
                                    properties exclude (escaped NUL, lone surrogate, raw bytes that are not UTF-8)
       values are tagged records so that heterogeneous values stay comparable in TLC:
         [z |-> 0]  null      [b |-> TRUE]  boolean     [n |-> <lexeme bytes>]  number (kept as its token)
         [s |-> <UTF-8 bytes>]  string   [a |-> <<v1, ...>>]  array   [o |-> << <<keybytes, v>>, ... >>]  object
   (2) exact arithmetic on number tokens and IEEE-754 bit patterns without floating point: canonical decimals,
       small dyadic decimals -> bits, 32-bit integers -> bits, and a bignum test that a token lies within half
       an ulp of a double (= every correctly rounding reader recovers the double from the token)
   (3) comparison of a specification value with the projection of an asl::Var logged by the harnesses
         z:0 | b:0/1 | i:[neg,hi,lo] f:[h,l] | d:[l3,l2,l1,l0] f:[h,l] | s:[bytes] | a:[values] | o:[[keybytes,value]..]
       (wide integers and IEEE patterns travel as 16-bit limbs because TLC integers are 32-bit).            *)
EXTENDS Integers, Sequences, FiniteSets, TLC, SequencesExt

WS  == {32, 9, 10, 13}
Dig == 48..57
MaxNest == 600          \* recognizer refuses deeper nesting (the property speaks of nesting up to 512)

Fail == [ok |-> FALSE, v |-> [z |-> 0], p |-> 0, ex |-> FALSE]
Ok(v, p, ex) == [ok |-> TRUE, v |-> v, p |-> p, ex |-> ex]

-------------------------------------------------------------------------------
(* UTF-8 (RFC 3629 well-formedness, table 3-7 of the Unicode standard) *)
Utf8Enc(cp) ==
    IF cp < 128 THEN <<cp>>
    ELSE IF cp < 2048 THEN <<192 + (cp \div 64), 128 + (cp % 64)>>
    ELSE IF cp < 65536 THEN <<224 + (cp \div 4096), 128 + ((cp \div 64) % 64), 128 + (cp % 64)>>
    ELSE <<240 + (cp \div 262144), 128 + ((cp \div 4096) % 64), 128 + ((cp \div 64) % 64), 128 + (cp % 64)>>

RECURSIVE Utf8From(_, _)
Utf8From(s, i) ==
    IF i > Len(s) THEN TRUE
    ELSE LET c == s[i]
             n == Len(s)
             Cont(j) == j <= n /\ s[j] \in 128..191
         IN IF c < 128 THEN
               \* skip the whole ASCII run at once (no recursion depth for long plain strings)
               LET q == SelectInSubSeq(s, i, n, LAMBDA x : x >= 128) IN
               IF q = 0 THEN TRUE ELSE Utf8From(s, q)
            ELSE IF c \in 194..223 THEN Cont(i+1) /\ Utf8From(s, i+2)
            ELSE IF c = 224 THEN i+1 <= n /\ s[i+1] \in 160..191 /\ Cont(i+2) /\ Utf8From(s, i+3)
            ELSE IF c \in 225..236 \/ c \in 238..239 THEN Cont(i+1) /\ Cont(i+2) /\ Utf8From(s, i+3)
            ELSE IF c = 237 THEN i+1 <= n /\ s[i+1] \in 128..159 /\ Cont(i+2) /\ Utf8From(s, i+3)
            ELSE IF c = 240 THEN i+1 <= n /\ s[i+1] \in 144..191 /\ Cont(i+2) /\ Cont(i+3) /\ Utf8From(s, i+4)
            ELSE IF c \in 241..243 THEN Cont(i+1) /\ Cont(i+2) /\ Cont(i+3) /\ Utf8From(s, i+4)
            ELSE IF c = 244 THEN i+1 <= n /\ s[i+1] \in 128..143 /\ Cont(i+2) /\ Cont(i+3) /\ Utf8From(s, i+4)
            ELSE FALSE
Utf8OK(s) == Utf8From(s, 1)

-------------------------------------------------------------------------------
(* the strict recognizer *)
RECURSIVE SkipWs(_, _)
SkipWs(t, p) == IF p <= Len(t) /\ t[p] \in WS THEN SkipWs(t, p + 1) ELSE p

Hex(c) == IF c \in 48..57 THEN c - 48 ELSE IF c \in 97..102 THEN c - 87 ELSE IF c \in 65..70 THEN c - 55 ELSE -1
Hex4(t, p) == \* value of the four hex digits at p..p+3, or -1
    IF p + 3 > Len(t) THEN -1
    ELSE IF \E i \in 0..3 : Hex(t[p+i]) < 0 THEN -1
    ELSE 4096 * Hex(t[p]) + 256 * Hex(t[p+1]) + 16 * Hex(t[p+2]) + Hex(t[p+3])

RECURSIVE StrBody(_, _, _, _)
\* p points after the opening quote; acc = UTF-8 bytes so far; ex = excluded feature seen
StrBody(t, p, acc, ex) ==
  IF p > Len(t) THEN Fail
  ELSE LET c == t[p] IN
    IF c = 34 THEN Ok([s |-> acc], p + 1, ex \/ ~Utf8OK(acc))
    ELSE IF c < 32 THEN Fail
    ELSE IF c = 92 THEN
      IF p + 1 > Len(t) THEN Fail
      ELSE LET e == t[p+1] IN
        IF e = 34 THEN StrBody(t, p+2, Append(acc, 34), ex)
        ELSE IF e = 92 THEN StrBody(t, p+2, Append(acc, 92), ex)
        ELSE IF e = 47 THEN StrBody(t, p+2, Append(acc, 47), ex)
        ELSE IF e = 98 THEN StrBody(t, p+2, Append(acc, 8), ex)
        ELSE IF e = 102 THEN StrBody(t, p+2, Append(acc, 12), ex)
        ELSE IF e = 110 THEN StrBody(t, p+2, Append(acc, 10), ex)
        ELSE IF e = 114 THEN StrBody(t, p+2, Append(acc, 13), ex)
        ELSE IF e = 116 THEN StrBody(t, p+2, Append(acc, 9), ex)
        ELSE IF e = 117 THEN
           LET u == Hex4(t, p+2) IN
           IF u < 0 THEN Fail
           ELSE IF u = 0 THEN StrBody(t, p+6, acc, TRUE)                      \* escaped NUL: excluded
           ELSE IF u \in 55296..56319 THEN                                     \* high surrogate: needs \uDC00..DFFF
              LET lo == IF p + 7 <= Len(t) /\ t[p+6] = 92 /\ t[p+7] = 117 THEN Hex4(t, p+8) ELSE -1 IN
              IF lo \in 56320..57343
              THEN StrBody(t, p+12, acc \o Utf8Enc(65536 + (u - 55296) * 1024 + (lo - 56320)), ex)
              ELSE StrBody(t, p+6, acc, TRUE)                                  \* lone surrogate: excluded
           ELSE IF u \in 56320..57343 THEN StrBody(t, p+6, acc, TRUE)          \* lone low surrogate: excluded
           ELSE StrBody(t, p+6, acc \o Utf8Enc(u), ex)
        ELSE Fail
    ELSE \* a run of plain characters is taken at once
      LET q0 == SelectInSubSeq(t, p, Len(t), LAMBDA x : x = 34 \/ x = 92 \/ x < 32)
          q == IF q0 = 0 THEN Len(t) + 1 ELSE q0
      IN StrBody(t, q, acc \o SubSeq(t, p, q - 1), ex)

RECURSIVE Digits(_, _)
Digits(t, p) == IF p <= Len(t) /\ t[p] \in Dig THEN Digits(t, p+1) ELSE p
Num(t, p) == \* number = [ minus ] int [ frac ] [ exp ]; the value is the token itself
  LET p1 == IF p <= Len(t) /\ t[p] = 45 THEN p + 1 ELSE p IN
  IF p1 > Len(t) THEN Fail ELSE IF t[p1] \notin Dig THEN Fail ELSE
  LET p2 == IF t[p1] = 48 THEN p1 + 1 ELSE Digits(t, p1)
      p3 == IF p2 <= Len(t) /\ t[p2] = 46
            THEN (IF p2 + 1 <= Len(t) /\ t[p2+1] \in Dig THEN Digits(t, p2+1) ELSE -1) ELSE p2
  IN IF p3 = -1 THEN Fail ELSE
  LET p4 == IF p3 <= Len(t) /\ t[p3] \in {101, 69} THEN
               LET q == IF p3 + 1 <= Len(t) /\ t[p3+1] \in {43, 45} THEN p3 + 2 ELSE p3 + 1 IN
               IF q <= Len(t) /\ t[q] \in Dig THEN Digits(t, q) ELSE -1
            ELSE p3
  IN IF p4 = -1 THEN Fail ELSE Ok([n |-> SubSeq(t, p, p4 - 1)], p4, FALSE)

Lit(t, p, w, val) == IF p + Len(w) - 1 <= Len(t) /\ SubSeq(t, p, p + Len(w) - 1) = w THEN Ok(val, p + Len(w), FALSE) ELSE Fail

RECURSIVE Val(_, _, _), Arr(_, _, _, _, _), Obj(_, _, _, _, _)
Val(t, p0, depth) ==
  LET p == SkipWs(t, p0) IN
  IF p > Len(t) \/ depth > MaxNest THEN Fail
  ELSE LET c == t[p] IN
    IF c = 34 THEN StrBody(t, p+1, <<>>, FALSE)
    ELSE IF c = 91 THEN LET q == SkipWs(t, p+1) IN
                        IF q <= Len(t) /\ t[q] = 93 THEN Ok([a |-> <<>>], q+1, FALSE) ELSE Arr(t, p+1, <<>>, depth+1, FALSE)
    ELSE IF c = 123 THEN LET q == SkipWs(t, p+1) IN
                         IF q <= Len(t) /\ t[q] = 125 THEN Ok([o |-> <<>>], q+1, FALSE) ELSE Obj(t, p+1, <<>>, depth+1, FALSE)
    ELSE IF c = 116 THEN Lit(t, p, <<116,114,117,101>>, [b |-> TRUE])
    ELSE IF c = 102 THEN Lit(t, p, <<102,97,108,115,101>>, [b |-> FALSE])
    ELSE IF c = 110 THEN Lit(t, p, <<110,117,108,108>>, [z |-> 0])
    ELSE Num(t, p)
Arr(t, p, acc, depth, ex) ==
  LET r == Val(t, p, depth) IN
  IF ~r.ok THEN Fail ELSE
  LET q == SkipWs(t, r.p) IN
  IF q > Len(t) THEN Fail
  ELSE IF t[q] = 44 THEN Arr(t, q+1, Append(acc, r.v), depth, ex \/ r.ex)
  ELSE IF t[q] = 93 THEN Ok([a |-> Append(acc, r.v)], q+1, ex \/ r.ex)
  ELSE Fail
Obj(t, p0, acc, depth, ex) ==
  LET p == SkipWs(t, p0) IN
  IF p > Len(t) THEN Fail ELSE IF t[p] # 34 THEN Fail ELSE
  LET k == StrBody(t, p+1, <<>>, FALSE) IN
  IF ~k.ok THEN Fail ELSE
  LET c == SkipWs(t, k.p) IN
  IF c > Len(t) THEN Fail ELSE IF t[c] # 58 THEN Fail ELSE
  LET r == Val(t, c+1, depth) IN
  IF ~r.ok THEN Fail ELSE
  LET q == SkipWs(t, r.p) IN
  IF q > Len(t) THEN Fail
  ELSE IF t[q] = 44 THEN Obj(t, q+1, Append(acc, <<k.v.s, r.v>>), depth, ex \/ k.ex \/ r.ex)
  ELSE IF t[q] = 125 THEN Ok([o |-> Append(acc, <<k.v.s, r.v>>)], q+1, ex \/ k.ex \/ r.ex)
  ELSE Fail

Doc(t) == LET r == Val(t, 1, 0) IN IF r.ok /\ SkipWs(t, r.p) = Len(t) + 1 THEN r ELSE Fail

\* kind of a value
Kind(v) == IF "z" \in DOMAIN v THEN "z" ELSE IF "b" \in DOMAIN v THEN "b" ELSE IF "n" \in DOMAIN v THEN "n"
           ELSE IF "s" \in DOMAIN v THEN "s" ELSE IF "a" \in DOMAIN v THEN "a" ELSE "o"

RECURSIVE DupKeys(_)
\* does some object of the value carry the same key twice?  (RFC 8259 leaves the value of such documents open)
DupKeys(v) ==
    IF Kind(v) = "a" THEN \E i \in 1..Len(v.a) : DupKeys(v.a[i])
    ELSE IF Kind(v) = "o" THEN \/ \E i, j \in 1..Len(v.o) : i < j /\ v.o[i][1] = v.o[j][1]
                               \/ \E i \in 1..Len(v.o) : DupKeys(v.o[i][2])
    ELSE FALSE

-------------------------------------------------------------------------------
(* numbers I: tokens as canonical decimals.  A token denotes (-1)^neg * 0.d1d2...dn * 10^e with d1 # 0 and dn # 0
   (or zero); two tokens denote the same real number iff their canonical forms are equal. *)
RECURSIVE DigVal(_, _, _)
DigVal(t, i, acc) == IF i > Len(t) \/ t[i] \notin Dig THEN acc ELSE DigVal(t, i + 1, 10 * acc + (t[i] - 48))   \* caller bounds the length

NumParts(lx) ==  \* [neg, ip (integer digits), fp (fraction digits), ex (exponent as integer, |ex| clipped to 99999)]
    LET neg == lx[1] = 45
        s == IF neg THEN 2 ELSE 1
        e1 == Digits(lx, s)
        hasF == e1 <= Len(lx) /\ lx[e1] = 46
        e2 == IF hasF THEN Digits(lx, e1 + 1) ELSE e1
        hasE == e2 <= Len(lx)
        eneg == hasE /\ lx[e2 + 1] = 45
        es == IF hasE THEN (IF lx[e2 + 1] \in {43, 45} THEN e2 + 2 ELSE e2 + 1) ELSE e2
        RECURSIVE Lead(_)
        Lead(i) == IF i < Len(lx) /\ lx[i] = 48 THEN Lead(i + 1) ELSE i           \* skip leading zeros of the exponent
        es1 == IF hasE THEN Lead(es) ELSE es
        eabs == IF ~hasE THEN 0 ELSE IF Len(lx) - es1 + 1 > 5 THEN 99999 ELSE DigVal(lx, es1, 0)
    IN [neg |-> neg, ip |-> SubSeq(lx, s, e1 - 1), fp |-> IF hasF THEN SubSeq(lx, e1 + 1, e2 - 1) ELSE <<>>,
        ex |-> IF eneg THEN -eabs ELSE eabs]

Canon(lx) == \* [neg, ds (significant digits as numbers 0..9, no leading/trailing zero), e]  value = 0.ds * 10^e ; zero: ds = <<>>, e = 0
    LET P == NumParts(lx)
        all == [i \in 1..(Len(P.ip) + Len(P.fp)) |-> IF i <= Len(P.ip) THEN P.ip[i] - 48 ELSE P.fp[i - Len(P.ip)] - 48]
        f == SelectInSeq(all, LAMBDA d : d # 0)
        l == SelectLastInSeq(all, LAMBDA d : d # 0)
    IN IF f = 0 THEN [neg |-> P.neg, ds |-> <<>>, e |-> 0]
       ELSE [neg |-> P.neg, ds |-> SubSeq(all, f, l), e |-> P.ex + Len(P.ip) - (f - 1)]

\* canonical decimal of a 32-bit integer given as [neg, hi, lo] (|x| = hi * 65536 + lo <= 2^31)
RECURSIVE DigitsOf(_)
DigitsOf(n) == IF n < 10 THEN <<n>> ELSE Append(DigitsOf(n \div 10), n % 10)
IntDigits(hi, lo) ==
    LET x == hi * 5536 + lo          \* hi*65536+lo = hi*6*10000 + x
        q == hi * 6 + (x \div 10000)
        r == x % 10000
    IN IF q = 0 THEN DigitsOf(r)
       ELSE DigitsOf(q) \o <<r \div 1000, (r \div 100) % 10, (r \div 10) % 10, r % 10>>
IntCanon(i) ==
    LET ds == IntDigits(i[2], i[3])
        l == SelectLastInSeq(ds, LAMBDA d : d # 0)
    IN IF l = 0 THEN [neg |-> FALSE, ds |-> <<>>, e |-> 0]
       ELSE [neg |-> i[1] = 1, ds |-> SubSeq(ds, 1, l), e |-> Len(ds)]
SameReal(c1, c2) == c1.ds = c2.ds /\ c1.e = c2.e /\ (c1.ds = <<>> \/ c1.neg = c2.neg)

-------------------------------------------------------------------------------
(* numbers II: IEEE-754 binary64 patterns as four 16-bit limbs <<l3, l2, l1, l0>> (l3 holds sign and exponent) *)
Pow2(n) == 2^n
RECURSIVE BitsOf(_, _)
BitsOf(n, w) == IF w = 0 THEN <<>> ELSE Append(BitsOf(n \div 2, w - 1), n % 2)      \* w bits of n, most significant first
RECURSIVE BitsVal(_, _, _)
BitsVal(bs, i, acc) == IF i > Len(bs) THEN acc ELSE BitsVal(bs, i + 1, 2 * acc + bs[i])
RECURSIVE Log2(_)
Log2(n) == IF n < 2 THEN 0 ELSE 1 + Log2(n \div 2)
\* the double m * 2^k for 0 < m < 2^31 with a normal result
DblOf(neg, m, k) ==
    LET p == Log2(m)
        be == 1023 + p + k
        bits == <<IF neg THEN 1 ELSE 0>> \o BitsOf(be, 11) \o BitsOf(m - Pow2(p), p) \o [i \in 1..(52 - p) |-> 0]
    IN [j \in 1..4 |-> BitsVal(SubSeq(bits, 16 * j - 15, 16 * j), 1, 0)]
DZero(neg) == <<IF neg THEN 32768 ELSE 0, 0, 0, 0>>
IsZeroD(d) == d[1] % 32768 = 0 /\ d[2] = 0 /\ d[3] = 0 /\ d[4] = 0
\* 32-bit integer [neg, hi, lo] -> double
IntToDbl(i) ==
    IF i[2] = 0 /\ i[3] = 0 THEN DZero(FALSE)
    ELSE IF i[2] = 32768 THEN <<(IF i[1] = 1 THEN 32768 ELSE 0) + (1023 + 31) * 16, 0, 0, 0>>
    ELSE DblOf(i[1] = 1, i[2] * 65536 + i[3], 0)
IsZeroF(f) == f[1] % 32768 = 0 /\ f[2] = 0
SameDbl(d1, d2) == d1 = d2 \/ (IsZeroD(d1) /\ IsZeroD(d2))       \* every non-zero double bit for bit

\* A token is *simple* when it denotes m * 2^k with m < 2^31 that TLC can compute directly:
\* at most 9 significant digits, value = ds * 10^(e-n); for a negative power 5^f must divide the digits.
RECURSIVE SeqVal(_, _, _)
SeqVal(ds, i, acc) == IF i > Len(ds) THEN acc ELSE SeqVal(ds, i + 1, 10 * acc + ds[i])
Pow(b, n) == b^n
\* canonical decimal that is an integer of magnitude <= 2^31 -> [ok, i = <<neg, hi, lo>>]
CanonToInt(c) ==
    IF c.ds = <<>> THEN [ok |-> TRUE, i |-> <<0, 0, 0>>]
    ELSE IF c.e < Len(c.ds) \/ c.e > 10 THEN [ok |-> FALSE, i |-> <<>>]
    ELSE LET all == c.ds \o [j \in 1..(c.e - Len(c.ds)) |-> 0]          \* the integer's digits
             n == Len(all)
             A == IF n > 5 THEN SeqVal(SubSeq(all, 1, n - 5), 1, 0) ELSE 0
             B == SeqVal(SubSeq(all, IF n > 5 THEN n - 4 ELSE 1, n), 1, 0)
             rest == A * 34464 + B                                          \* A*100000 + B = A*65536 + rest
         IN IF A > 21474 \/ (A = 21474 /\ B > 83648) THEN [ok |-> FALSE, i |-> <<>>]
            ELSE [ok |-> TRUE, i |-> <<IF c.neg THEN 1 ELSE 0, A + (rest \div 65536), rest % 65536>>]
SimpleDbl(c) == \* [ok, d]
    IF c.ds = <<>> THEN [ok |-> TRUE, d |-> DZero(c.neg)]
    ELSE IF CanonToInt(c).ok THEN [ok |-> TRUE, d |-> IntToDbl(CanonToInt(c).i)]
    ELSE IF Len(c.ds) > 9 THEN [ok |-> FALSE, d |-> <<>>]
    ELSE LET M == SeqVal(c.ds, 1, 0)
             x == c.e - Len(c.ds)          \* value = M * 10^x
         IN IF x >= 0 THEN
               IF x > 9 THEN [ok |-> FALSE, d |-> <<>>]
               ELSE IF M > 2147483647 \div Pow(10, x) THEN [ok |-> FALSE, d |-> <<>>]
               ELSE [ok |-> TRUE, d |-> DblOf(c.neg, M * Pow(10, x), 0)]
            ELSE IF -x > 12 THEN [ok |-> FALSE, d |-> <<>>]
            ELSE IF M % Pow(5, -x) # 0 THEN [ok |-> FALSE, d |-> <<>>]
            ELSE [ok |-> TRUE, d |-> DblOf(c.neg, M \div Pow(5, -x), x)]

-------------------------------------------------------------------------------
(* numbers III: bignum test that a decimal token lies within half an ulp of a double.
   Naturals are little-endian sequences of base-10000 limbs. *)
BB == 10000
BNorm(a) == LET l == SelectLastInSeq(a, LAMBDA x : x # 0) IN SubSeq(a, 1, l)
RECURSIVE BMulS(_, _, _, _)
BMulS(a, m, i, carry) ==    \* a * m for a small m (m * 9999 + carry stays below 2^31: m <= 65536)
    IF i > Len(a) THEN (IF carry = 0 THEN <<>> ELSE <<carry % BB>> \o BMulS(a, m, i, carry \div BB))
    ELSE LET x == a[i] * m + carry IN <<x % BB>> \o BMulS(a, m, i + 1, x \div BB)
BMul(a, m) == BMulS(a, m, 1, 0)
RECURSIVE BAddS(_, _, _, _)
BAddS(a, b, i, carry) ==
    IF i > Len(a) /\ i > Len(b) THEN (IF carry = 0 THEN <<>> ELSE <<carry>>)
    ELSE LET x == (IF i <= Len(a) THEN a[i] ELSE 0) + (IF i <= Len(b) THEN b[i] ELSE 0) + carry
         IN <<x % BB>> \o BAddS(a, b, i + 1, x \div BB)
BAdd(a, b) == BAddS(a, b, 1, 0)
RECURSIVE BCmpS(_, _, _)
BCmpS(a, b, i) == IF i = 0 THEN 0 ELSE IF a[i] < b[i] THEN -1 ELSE IF a[i] > b[i] THEN 1 ELSE BCmpS(a, b, i - 1)
BCmp(a0, b0) == LET a == BNorm(a0) b == BNorm(b0) IN
                IF Len(a) < Len(b) THEN -1 ELSE IF Len(a) > Len(b) THEN 1 ELSE BCmpS(a, b, Len(a))
RECURSIVE BSubS(_, _, _, _)
BSubS(a, b, i, borrow) ==   \* a - b for a >= b
    IF i > Len(a) THEN <<>>
    ELSE LET x == a[i] - (IF i <= Len(b) THEN b[i] ELSE 0) - borrow
         IN <<(x + BB) % BB>> \o BSubS(a, b, i + 1, IF x < 0 THEN 1 ELSE 0)
BAbsDiff(a, b) == IF BCmp(a, b) >= 0 THEN BSubS(a, b, 1, 0) ELSE BSubS(b, a, 1, 0)
RECURSIVE BMulPow(_, _, _)
BMulPow(a, base, n) ==      \* a * base^n, base in {2, 5, 10}
    IF n = 0 THEN a
    ELSE IF base = 2 /\ n >= 13 THEN BMulPow(BMul(a, 8192), base, n - 13)
    ELSE IF base = 5 /\ n >= 5 THEN BMulPow(BMul(a, 3125), base, n - 5)
    ELSE IF base = 10 /\ n >= 4 THEN BMulPow(<<0>> \o a, base, n - 4)
    ELSE BMulPow(BMul(a, base), base, n - 1)
RECURSIVE BFromDigits(_, _)
BFromDigits(ds, hi) ==      \* decimal digits (most significant first, ds[1..hi]) -> bignum
    IF hi <= 0 THEN <<>>
    ELSE LET lo == IF hi - 3 < 1 THEN 1 ELSE hi - 3 IN <<SeqVal(SubSeq(ds, lo, hi), 1, 0)>> \o BFromDigits(ds, lo - 1)
BFromLimbs16(ls) ==         \* <<most significant 16-bit limb, ...>> -> bignum
    LET RECURSIVE go(_, _)
        go(i, acc) == IF i > Len(ls) THEN acc ELSE go(i + 1, BAdd(BMul(acc, 65536), <<ls[i]>>))
    IN go(1, <<>>)

\* decomposition of a finite non-zero double: value = M * 2^k with M a 53-bit natural (as 16-bit limbs) ; hu = TRUE
\* when the pattern is a power of two (lower neighbour is half as far away)
DblParts(d) ==
    LET be == (d[1] % 32768) \div 16
        top == d[1] % 16
    IN IF be = 0 THEN [m |-> <<top, d[2], d[3], d[4]>>, k |-> -1074, p2 |-> FALSE]
       ELSE [m |-> <<16 + top, d[2], d[3], d[4]>>, k |-> be - 1075, p2 |-> top = 0 /\ d[2] = 0 /\ d[3] = 0 /\ d[4] = 0 /\ be > 1]
IsFiniteD(d) == (d[1] % 32768) \div 16 # 2047

\* |token - double| <= ulp/2 (token on the round-to-even boundary is accepted only in the direction a correctly
\* rounding reader takes: strictly inside, or exactly half way with an even mantissa).  Everything is scaled to integers:
\*    token = D * 10^x ,  double = M * 2^k ;  compare 2*|D*10^x - M*2^k|  with  2^k  (2^(k-1) below a power of two)
HalfUlpCore(c, P) ==    \* c: non-zero canonical decimal, P = [m (16-bit limbs, most significant first), k, p2]: |c| vs m * 2^k
    LET x == c.e - Len(c.ds)
        D0 == BFromDigits(c.ds, Len(c.ds))
        M0 == BFromLimbs16(P.m)
        \* common scale: multiply both sides by 10^(-x) if x < 0 and by 2^(-k) if k < 0 (plus 2 bits of slack for the halves)
        s2 == (IF P.k < 0 THEN -P.k ELSE 0) + 2
        k2 == P.k + s2                                  \* >= 2
        Ten == IF x < 0 THEN BMulPow(<<1>>, 10, -x) ELSE <<1>>
        Dn == BMulPow(IF x >= 0 THEN BMulPow(D0, 10, x) ELSE D0, 2, s2)
        Mn == BMulPow(IF x < 0 THEN BMulPow(M0, 10, -x) ELSE M0, 2, k2)
        diff2 == BMul(BAbsDiff(Dn, Mn), 2)
        below == BCmp(Dn, Mn) < 0
        lim == BMulPow(Ten, 2, IF below /\ P.p2 THEN k2 - 1 ELSE k2)
        cmp == BCmp(diff2, lim)
    IN cmp < 0 \/ (cmp = 0 /\ P.m[Len(P.m)] % 2 = 0)
\* the magnitude test is only attempted where it is meaningful: a token far outside the range of the format denotes no
\* finite value of it (what a reader does with it is left open by RFC 8259)
WithinHalfUlp(c, d) ==
    IF c.ds = <<>> THEN IsZeroD(d)
    ELSE IF IsZeroD(d) \/ ~IsFiniteD(d) THEN FALSE
    ELSE IF c.neg # (d[1] >= 32768) THEN FALSE
    ELSE IF c.e > 400 \/ c.e < -400 THEN FALSE
    ELSE HalfUlpCore(c, DblParts(d))
\* binary32 pattern <<h, l>>
FltParts(f) ==
    LET be == (f[1] % 32768) \div 128
        top == f[1] % 128
    IN IF be = 0 THEN [m |-> <<top, f[2]>>, k |-> -149, p2 |-> FALSE]
       ELSE [m |-> <<128 + top, f[2]>>, k |-> be - 150, p2 |-> top = 0 /\ f[2] = 0 /\ be > 1]
WithinHalfUlpF(c, f) ==
    IF c.ds = <<>> THEN IsZeroF(f)
    ELSE IF IsZeroF(f) \/ (f[1] % 32768) \div 128 = 255 THEN FALSE
    ELSE IF c.neg # (f[1] >= 32768) THEN FALSE
    ELSE IF c.e > 60 \/ c.e < -60 THEN FALSE
    ELSE HalfUlpCore(c, FltParts(f))
\* reduced-precision modes (%.15g / %.7g): the token has at most nd significant digits and differs from the binary value
\* M * 2^k by at most half a unit of its nd-th significant digit (it is the nd-digit rounding of the value)
DigitsCore(c, P, nd) ==
    LET n == Len(c.ds)
        x == c.e - n
        D0 == BFromDigits(c.ds, n)
        M0 == BFromLimbs16(P.m)
        s2 == (IF P.k < 0 THEN -P.k ELSE 0) + 2
        k2 == P.k + s2
        pad == nd - n                                        \* everything is further scaled by 10^pad
        Dn == BMulPow(BMulPow(IF x >= 0 THEN BMulPow(D0, 10, x) ELSE D0, 2, s2), 10, pad)
        Mn == BMulPow(BMulPow(IF x < 0 THEN BMulPow(M0, 10, -x) ELSE M0, 2, k2), 10, pad)
        unit == BMulPow(IF x >= 0 THEN BMulPow(<<1>>, 10, x) ELSE <<1>>, 2, s2)    \* 10^(e-nd) in the common scale
    IN n <= nd /\ BCmp(BMul(BAbsDiff(Dn, Mn), 2), unit) <= 0
WithinDigits(c, d, nd) ==
    IF c.ds = <<>> THEN IsZeroD(d)
    ELSE IF IsZeroD(d) \/ ~IsFiniteD(d) THEN FALSE
    ELSE IF c.neg # (d[1] >= 32768) THEN FALSE
    ELSE IF c.e > 400 \/ c.e < -400 THEN FALSE
    ELSE DigitsCore(c, DblParts(d), nd)
WithinDigitsF(c, f, nd) ==
    IF c.ds = <<>> THEN IsZeroF(f)
    ELSE IF IsZeroF(f) \/ (f[1] % 32768) \div 128 = 255 THEN FALSE
    ELSE IF c.neg # (f[1] >= 32768) THEN FALSE
    ELSE IF c.e > 60 \/ c.e < -60 THEN FALSE
    ELSE DigitsCore(c, FltParts(f), nd)
\* tokens whose magnitude lies outside the binary64 range (about 1e-324 .. 1.8e308): their decoded value is left open
OutOfRange(c) == c.ds # <<>> /\ (c.e > 308 \/ c.e < -322)

-------------------------------------------------------------------------------
(* comparison of a specification value (numbers are tokens) with a logged projection of an asl::Var *)
LKind(x) == IF "z" \in DOMAIN x THEN "z" ELSE IF "b" \in DOMAIN x THEN "b" ELSE IF "i" \in DOMAIN x THEN "i"
            ELSE IF "d" \in DOMAIN x THEN "d" ELSE IF "s" \in DOMAIN x THEN "s" ELSE IF "a" \in DOMAIN x THEN "a"
            ELSE IF "o" \in DOMAIN x THEN "o" ELSE "none"
LDbl(x) == IF "i" \in DOMAIN x THEN IntToDbl(x.i) ELSE x.d

\* token vs decoded number.  Exact: as decimals when the implementation produced an int; through SimpleDbl when TLC can
\* compute the double; otherwise (general decimal fractions) the decoded double must be the correctly rounded value
\* of the token (WithinHalfUlp) when Exact is requested, and merely a number otherwise.
TokenMatches(lx, x, exact) ==
    IF LKind(x) = "i" THEN SameReal(Canon(lx), IntCanon(x.i))
    ELSE IF LKind(x) # "d" THEN FALSE
    ELSE LET c == Canon(lx)
             sd == SimpleDbl(c)
         IN IF sd.ok THEN SameDbl(sd.d, x.d)
            ELSE IF OutOfRange(c) THEN TRUE
            ELSE IF exact THEN WithinHalfUlp(c, x.d) ELSE TRUE

RECURSIVE ValMatches(_, _, _)
ValMatches(v, x, exact) ==
    LET k == Kind(v) IN
    IF k = "z" THEN LKind(x) = "z"
    ELSE IF k = "b" THEN LKind(x) = "b" /\ (x.b = 1) = v.b
    ELSE IF k = "n" THEN TokenMatches(v.n, x, exact)
    ELSE IF k = "s" THEN LKind(x) = "s" /\ x.s = v.s
    ELSE IF k = "a" THEN LKind(x) = "a" /\ Len(x.a) = Len(v.a) /\ \A i \in 1..Len(v.a) : ValMatches(v.a[i], x.a[i], exact)
    ELSE /\ LKind(x) = "o" /\ Len(x.o) = Len(v.o)
         /\ \A i \in 1..Len(v.o) : \E j \in 1..Len(x.o) : x.o[j][1] = v.o[i][1] /\ ValMatches(v.o[i][2], x.o[j][2], exact)

\* logged tree (what the recorder put into the Var) vs logged decoded projection: the round-trip relation of C05
\*   tree numbers: i:[neg,hi,lo] | d:[4 limbs] | f:[h,l] (a float)   decoded: i+f | d+f  (f = the value converted to float)
TKind(x) == IF "f" \in DOMAIN x /\ "i" \notin DOMAIN x /\ "d" \notin DOMAIN x THEN "f" ELSE LKind(x)
NumRoundTrip(a, x, bitexact) ==
    IF LKind(x) \notin {"i", "d"} THEN FALSE
    ELSE IF TKind(a) = "i" THEN (IF LKind(x) = "i" THEN SameReal(IntCanon(a.i), IntCanon(x.i)) ELSE x.d = IntToDbl(a.i))
    ELSE IF TKind(a) = "d" THEN (IF bitexact THEN SameDbl(a.d, LDbl(x)) ELSE TRUE)
    ELSE (IF bitexact THEN (x.f = a.f \/ (IsZeroF(a.f) /\ IsZeroF(x.f))) ELSE TRUE)
RECURSIVE TreeRoundTrip(_, _, _)
TreeRoundTrip(a, x, bitexact) ==
    LET k == TKind(a) IN
    IF k \in {"i", "d", "f"} THEN NumRoundTrip(a, x, bitexact)
    ELSE IF k = "z" THEN LKind(x) = "z"
    ELSE IF k = "b" THEN LKind(x) = "b" /\ x.b = a.b
    ELSE IF k = "s" THEN LKind(x) = "s" /\ x.s = a.s
    ELSE IF k = "a" THEN LKind(x) = "a" /\ Len(x.a) = Len(a.a) /\ \A i \in 1..Len(a.a) : TreeRoundTrip(a.a[i], x.a[i], bitexact)
    ELSE IF k = "o" THEN /\ LKind(x) = "o" /\ Len(x.o) = Len(a.o)
                         /\ \A i \in 1..Len(a.o) : \E j \in 1..Len(x.o) : x.o[j][1] = a.o[i][1] /\ TreeRoundTrip(a.o[i][2], x.o[j][2], bitexact)
    ELSE FALSE

\* recognized text (tokens) vs logged tree: the output of the encoder denotes the same value (C05 clause (i))
TokenDenotes(lx, a, exact) ==
    LET c == Canon(lx) IN
    IF TKind(a) = "i" THEN SameReal(c, IntCanon(a.i))
    ELSE IF TKind(a) = "d" THEN
         (IF ~exact THEN WithinDigits(c, a.d, 15)
          ELSE LET sd == SimpleDbl(c) IN IF sd.ok THEN SameDbl(sd.d, a.d) ELSE WithinHalfUlp(c, a.d))
    ELSE IF TKind(a) = "f" THEN (IF ~exact THEN WithinDigitsF(c, a.f, 7) ELSE WithinHalfUlpF(c, a.f))
    ELSE FALSE
RECURSIVE TextDenotes(_, _, _)
TextDenotes(v, a, exact) ==
    LET k == Kind(v) IN
    IF k = "z" THEN TKind(a) = "z"
    ELSE IF k = "b" THEN TKind(a) = "b" /\ (a.b = 1) = v.b
    ELSE IF k = "n" THEN TKind(a) \in {"i", "d", "f"} /\ TokenDenotes(v.n, a, exact)
    ELSE IF k = "s" THEN TKind(a) = "s" /\ a.s = v.s
    ELSE IF k = "a" THEN TKind(a) = "a" /\ Len(a.a) = Len(v.a) /\ \A i \in 1..Len(v.a) : TextDenotes(v.a[i], a.a[i], exact)
    ELSE /\ TKind(a) = "o" /\ Len(a.o) = Len(v.o)
         /\ \A i \in 1..Len(v.o) : \E j \in 1..Len(a.o) : a.o[j][1] = v.o[i][1] /\ TextDenotes(v.o[i][2], a.o[j][2], exact)
===============================================================================
