-------------------------------- MODULE IniCsv --------------------------------
(* C18 - asl::IniFile and asl::TabularDataFile persist exactly what was set or written.

   Both halves are specified as relations between byte strings, so that one vocabulary serves both bindings:

   INI.  A text is a sequence of lines (section headers, key=value entries with optional indentation, comments,
         blank lines; LF or CR LF; with or without a final newline).  Assigns(text) is the list of (section, key,
         value) entries in file order (Parse), Expected(text, sets) what a reader must see after the edits, and
         IniOK(text, sets, w) is the requirement on the rewritten file w:
            values:  every pre-existing and every set key looks up in w as Expected says,
            order:   the comment lines and the entries no set() touched appear in w in their original relative
                     order, unchanged (Items(w) = Items(text)).
         RefWrite is a reference writer (rewrite touched entries in place, add new ones); TLC checks
         IniOK(text, sets, RefWrite(text, sets)) for every generated case, i.e. parser, requirement and writer -
         three independent formulations - agree.
   CSV.  A table is a sequence of rows of cells; a cell is a string or a number given by sign, decimal digits
         and exponent (no floating point).  NumText is the "%.15g" rendering, CsvText the writer (quote a string
         iff it contains the separator or a quote, double the quotes), CsvRows the reader (quote state per line);
         TLC checks CsvRows(CsvText(rows)) = Norm(rows) for every generated table.

   R: MC_IniCsv_*.cfg emit one case per transition (text + edits + expected lookups / table + expected file text)
      -> harness/c18_replay, which also logs what the real classes produced;
   V: Trace_IniCsv validates those logs and the logs of the random recorder harness/c18_record: TLC evaluates
      IniOK / CsvRows / Norm on the bytes the implementation wrote and read.                                      *)
EXTENDS Integers, Sequences, FiniteSets, TLC, Json, SequencesExt

CONSTANTS Part,        \* "ini" or "csv": which generator runs in model-checking mode
          IniLines,    \* line alphabet (set of byte strings) of generated INI texts
          MaxLines,    \* maximal number of lines of a generated text
          SetNames,    \* <<section, key>> pairs the generated set() calls address
          SetValues,   \* sequence of values: the i-th set() call of a history writes SetValues[i]
          MaxSets,     \* maximal number of set() calls
          Cells,       \* cell alphabet of generated tables
          MaxCols, MaxCells \* tables have at most MaxCols columns and MaxCells cells

VARIABLES itext,       \* INI: lines so far
          istyle,      \* INI: <<newline, final>>: newline "LF"/"CRLF", final = text ends with a newline
          isets,       \* INI: set() calls so far: sequence of [sec, key, val]
          crows,       \* CSV: rows so far (the last one possibly incomplete)
          ccols        \* CSV: number of columns
vars == <<itext, istyle, isets, crows, ccols>>

LF == 10
CR == 13
Top == <<45>>          \* "-": the name the library gives the section of entries before the first header

-------------------------------------------------------------------------------
(* sequence helpers (non-recursive or balanced: texts of the recorded traces are a few KB) *)
RECURSIVE FlatR(_, _, _)
FlatR(ss, lo, hi) == IF lo > hi THEN <<>> ELSE IF lo = hi THEN ss[lo]
                     ELSE LET mid == (lo + hi) \div 2 IN FlatR(ss, lo, mid) \o FlatR(ss, mid + 1, hi)
Flat(ss) == FlatR(ss, 1, Len(ss))
Positions(t, b) == SetToSortSeq({i \in 1..Len(t) : t[i] = b}, <)
Filter(s, P(_)) == LET keep == SetToSortSeq({i \in 1..Len(s) : P(s[i])}, <) IN [k \in 1..Len(keep) |-> s[keep[k]]]
\* split at LF, one CR before an LF dropped (FileModel!Lines)
Lines(t) == LET ps == Positions(t, LF)
                n == Len(ps)
                From(k) == IF k = 1 THEN 1 ELSE ps[k - 1] + 1
                To(k) == IF k = n + 1 THEN Len(t)
                         ELSE IF ps[k] > From(k) /\ t[ps[k] - 1] = CR THEN ps[k] - 2 ELSE ps[k] - 1
            IN [k \in 1..(n + 1) |-> SubSeq(t, From(k), To(k))]
IsBlank(c) == c \in {32, 9, 10, 13}
Trim(s) == LET nb == {i \in 1..Len(s) : ~IsBlank(s[i])}
           IN IF nb = {} THEN <<>>
              ELSE SubSeq(s, CHOOSE i \in nb : \A j \in nb : i <= j, CHOOSE i \in nb : \A j \in nb : i >= j)
FirstPos(s, b) == LET ps == {i \in 1..Len(s) : s[i] = b} IN IF ps = {} THEN 0 ELSE CHOOSE i \in ps : \A j \in ps : i <= j

-------------------------------------------------------------------------------
(* INI: classification of a line *)
FirstInk(l) == LET nb == {i \in 1..Len(l) : ~IsBlank(l[i])} IN IF nb = {} THEN 0 ELSE l[CHOOSE i \in nb : \A j \in nb : i <= j]
IsHeader(l)  == Len(l) >= 2 /\ l[1] = 91 /\ FirstPos(l, 93) > 0
HeaderName(l) == SubSeq(l, 2, FirstPos(l, 93) - 1)
IsComment(l) == FirstInk(l) \in {35, 59}
IsKV(l)      == ~IsHeader(l) /\ ~IsComment(l) /\ FirstInk(l) > 47 /\ FirstPos(l, 61) > 1
KeyOf(l)     == Trim(SubSeq(l, 1, FirstPos(l, 61) - 1))
ValOf(l)     == Trim(SubSeq(l, FirstPos(l, 61) + 1, Len(l)))

\* the section an entry on line i belongs to
SecAt(ls, i) == LET hs == {j \in 1..i : IsHeader(ls[j])}
                IN IF hs = {} THEN Top ELSE HeaderName(ls[CHOOSE j \in hs : \A k \in hs : j >= k])
\* Parse: the entries in file order
AssignsL(ls) == LET idx == SetToSortSeq({i \in 1..Len(ls) : IsKV(ls[i])}, <)
                IN [k \in 1..Len(idx) |-> [sec |-> SecAt(ls, idx[k]), key |-> KeyOf(ls[idx[k]]), val |-> ValOf(ls[idx[k]])]]
Assigns(text) == AssignsL(Lines(text))
\* value of sec/key: the last entry wins; an absent key reads as the empty string
Lookup(as, sec, key) == LET m == {i \in 1..Len(as) : as[i].sec = sec /\ as[i].key = key}
                        IN IF m = {} THEN <<>> ELSE as[CHOOSE i \in m : \A j \in m : i >= j].val
KeysOf(as) == {<<as[i].sec, as[i].key>> : i \in 1..Len(as)}
\* what a fresh IniFile must return after the edits
Expected(text, sets, sec, key) == Lookup(Assigns(text) \o sets, sec, key)
Touched(sets) == KeysOf(sets)

\* comments (verbatim) and untouched entries (their section and key), in file order
ItemsL(ls, touched) ==
    LET idx == SetToSortSeq({i \in 1..Len(ls) : IsComment(ls[i]) \/ (IsKV(ls[i]) /\ <<SecAt(ls, i), KeyOf(ls[i])>> \notin touched)}, <)
    IN [k \in 1..Len(idx) |-> IF IsComment(ls[idx[k]]) THEN [c |-> ls[idx[k]]]
                              ELSE [sec |-> SecAt(ls, idx[k]), key |-> KeyOf(ls[idx[k]])]]

\* (Assigns(text) \o sets is the history a reader must account for: later entries and later set() calls win)
ValuesOK(text, sets, w) == LET at == Assigns(text) \o sets
                               aw == Assigns(w)
                           IN \A sk \in KeysOf(at) : Lookup(aw, sk[1], sk[2]) = Lookup(at, sk[1], sk[2])
OrderOK(text, sets, w)  == ItemsL(Lines(w), Touched(sets)) = ItemsL(Lines(text), Touched(sets))
IniOK(text, sets, w)    == ValuesOK(text, sets, w) /\ OrderOK(text, sets, w)

\* a plain key name (no "section/") addresses the top section when the text has top-level entries or no header at all
PlainOK(text) == LET ls == Lines(text) IN
                 \/ {i \in 1..Len(ls) : IsHeader(ls[i])} = {}
                 \/ \E i \in 1..Len(ls) : IsKV(ls[i]) /\ SecAt(ls, i) = Top

HasTopEntries(text) == LET ls == Lines(text) IN \E i \in 1..Len(ls) : IsKV(ls[i]) /\ SecAt(ls, i) = Top

\* the defect of the unchanged tree (DESIGN.md section 7): the reader stops before a last line that has no newline
EndsWithNewline(text) == text = <<>> \/ text[Len(text)] = LF
LastLineHazard(text) == ~EndsWithNewline(text) /\ IsKV(Lines(text)[Len(Lines(text))])

(* a reference writer: touched entries rewritten in place, new entries added (top-level ones in front, the others under
   a header appended at the end).  Any writer that satisfies IniOK is acceptable; this one shows the requirement is
   satisfiable and cross-checks parser and requirement. *)
JoinLF(ls) == Flat([i \in 1..Len(ls) |-> ls[i] \o <<LF>>])
KVLine(key, val) == key \o <<61>> \o val
RefWrite(text, sets) ==
    LET ls0 == Lines(text)
        ls == IF ls0[Len(ls0)] = <<>> THEN SubSeq(ls0, 1, Len(ls0) - 1) ELSE ls0          \* no phantom last line
        at == AssignsL(ls) \o sets
        old == KeysOf(AssignsL(ls))
        touched == Touched(sets)
        inplace == [i \in 1..Len(ls) |->
                       IF IsKV(ls[i]) /\ <<SecAt(ls, i), KeyOf(ls[i])>> \in touched
                       THEN KVLine(KeyOf(ls[i]), Lookup(at, SecAt(ls, i), KeyOf(ls[i]))) ELSE ls[i]]
        \* new keys, each once, in the order of their first set()
        firsts == SetToSortSeq({i \in 1..Len(sets) : <<sets[i].sec, sets[i].key>> \notin old
                                    /\ \A j \in 1..(i - 1) : <<sets[j].sec, sets[j].key>> # <<sets[i].sec, sets[i].key>>}, <)
        news == [k \in 1..Len(firsts) |-> sets[firsts[k]]]
        newTop == Filter(news, LAMBDA s : s.sec = Top)
        newSec == Filter(news, LAMBDA s : s.sec # Top)
        front == [k \in 1..Len(newTop) |-> KVLine(newTop[k].key, Lookup(at, Top, newTop[k].key))]
        back == Flat([k \in 1..Len(newSec) |-> << <<91>> \o newSec[k].sec \o <<93>>,
                                                  KVLine(newSec[k].key, Lookup(at, newSec[k].sec, newSec[k].key)) >>])
    IN IF sets = <<>> THEN text ELSE JoinLF(front \o inplace \o back)

-------------------------------------------------------------------------------
(* CSV *)
Comma == 44
Quote == 34
\* "%.15g" of the number (-1)^neg * d1.d2d3... * 10^x  (digs without trailing zeros; <<0>> is zero)
Digit(d) == 48 + d
NumText(c) ==
    LET n == Len(c.digs)
        ds == [i \in 1..n |-> Digit(c.digs[i])]
        sign == IF c.neg THEN <<45>> ELSE <<>>
        zeros(k) == [i \in 1..k |-> 48]
        ax == IF c.x < 0 THEN -c.x ELSE c.x
        expo == <<101, IF c.x < 0 THEN 45 ELSE 43>> \o
                (IF ax < 10 THEN <<48, Digit(ax)>> ELSE IF ax < 100 THEN <<Digit(ax \div 10), Digit(ax % 10)>>
                 ELSE <<Digit(ax \div 100), Digit((ax \div 10) % 10), Digit(ax % 10)>>)
    IN IF c.digs = <<0>> THEN sign \o <<48>>
       ELSE IF c.x < -4 \/ c.x >= 15
            THEN sign \o <<ds[1]>> \o (IF n > 1 THEN <<46>> \o SubSeq(ds, 2, n) ELSE <<>>) \o expo
       ELSE IF c.x >= 0
            THEN IF n <= c.x + 1 THEN sign \o ds \o zeros(c.x + 1 - n)
                 ELSE sign \o SubSeq(ds, 1, c.x + 1) \o <<46>> \o SubSeq(ds, c.x + 2, n)
       ELSE sign \o <<48, 46>> \o zeros(-c.x - 1) \o ds
\* the defect of the unchanged tree found by this check: the reader scales the integer mantissa by pow(10, e) with
\* e = x - (digits - 1); below about -307 that power is subnormal or zero and the digits are lost
TinyScale(c) == c.t = "n" /\ c.digs # <<0>> /\ (c.x < -4) /\ c.x - (Len(c.digs) - 1) < -307
\* what a reader returns for a written cell: the type and the text (numbers: the 15 significant digits written)
Norm(c) == [t |-> c.t, s |-> IF c.t = "n" THEN NumText(c) ELSE c.s]
NormRows(rows) == [i \in 1..Len(rows) |-> [j \in 1..Len(rows[i]) |-> Norm(rows[i][j])]]

\* writer: a string is quoted iff it contains the separator or a quote; quotes are doubled
Has(s, b) == {i \in 1..Len(s) : s[i] = b} # {}
CellText(c) == IF c.t = "n" THEN NumText(c)
               ELSE IF Has(c.s, Quote) \/ Has(c.s, Comma)
                    THEN <<Quote>> \o Flat([i \in 1..Len(c.s) |-> IF c.s[i] = Quote THEN <<Quote, Quote>> ELSE <<c.s[i]>>]) \o <<Quote>>
                    ELSE c.s
RowText(row) == Flat([j \in 1..Len(row) |-> (IF j > 1 THEN <<Comma>> ELSE <<>>) \o CellText(row[j])])
HeaderText(n) == Flat([j \in 1..n |-> (IF j > 1 THEN <<Comma>> ELSE <<>>) \o <<98 + j>>])      \* c,d,e,...
CsvText(rows, n) == HeaderText(n) \o <<LF>> \o Flat([i \in 1..Len(rows) |-> RowText(rows[i]) \o <<LF>>])

\* reader.  A position is inside quotes iff an odd number of quote characters precedes it; fields end at separators
\* outside quotes; within a field the 1st quote character opens, and of every later pair the first is dropped
QuotesBefore(l, i) == Cardinality({j \in 1..(i - 1) : l[j] = Quote})
FieldEnds(l) == SetToSortSeq({i \in 1..Len(l) : l[i] = Comma /\ QuotesBefore(l, i) % 2 = 0} \cup {Len(l) + 1}, <)
Unquote(f) == LET keep == SetToSortSeq({i \in 1..Len(f) : f[i] # Quote \/ (QuotesBefore(f, i) % 2 = 0 /\ QuotesBefore(f, i) >= 2)}, <)
              IN [k \in 1..Len(keep) |-> f[keep[k]]]
\* the texts "%.15g" produces:  -?digits(.digits)?(e[+-]digits)?
IsDigit(b) == b >= 48 /\ b <= 57
AllDigits(s) == s # <<>> /\ {i \in 1..Len(s) : ~IsDigit(s[i])} = {}
IsNumText(s) == LET body == IF s # <<>> /\ s[1] = 45 THEN Tail(s) ELSE s
                    e == FirstPos(body, 101)
                    mant == IF e = 0 THEN body ELSE SubSeq(body, 1, e - 1)
                    ex == IF e = 0 THEN <<>> ELSE SubSeq(body, e + 1, Len(body))
                    dot == FirstPos(mant, 46)
                IN /\ (IF dot = 0 THEN AllDigits(mant) ELSE AllDigits(SubSeq(mant, 1, dot - 1)) /\ AllDigits(SubSeq(mant, dot + 1, Len(mant))))
                   /\ (e = 0 \/ (Len(ex) >= 2 /\ ex[1] \in {43, 45} /\ AllDigits(Tail(ex))))
ReadCell(f) == LET u == Unquote(f) IN [t |-> IF IsNumText(u) THEN "n" ELSE "s", s |-> u]
ParseRow(l) == LET ends == FieldEnds(l) IN
               [k \in 1..Len(ends) |-> ReadCell(SubSeq(l, IF k = 1 THEN 1 ELSE ends[k - 1] + 1, ends[k] - 1))]
\* the data rows of a file: everything after the header line; the newline that ends the last row starts no further row
CsvRows(file) == LET ls == Lines(file)
                     m == IF ls[Len(ls)] = <<>> THEN Len(ls) - 1 ELSE Len(ls)
                 IN [i \in 1..(m - 1) |-> ParseRow(ls[i + 1])]
CsvOK(rows, n) == CsvRows(CsvText(rows, n)) = NormRows(rows)

-------------------------------------------------------------------------------
(* model-checking mode: generators *)
Newline(st) == IF st = "CRLF" THEN <<CR, LF>> ELSE <<LF>>
TextOf(ls, st) == Flat([i \in 1..Len(ls) |-> ls[i] \o (IF i < Len(ls) \/ st[2] THEN Newline(st[1]) ELSE <<>>)])
IText == TextOf(itext, istyle)

Init == /\ itext = <<>> /\ isets = <<>>
        /\ istyle \in (IF Part = "ini" THEN {"LF", "CRLF"} \X BOOLEAN ELSE {<<"LF", TRUE>>})
        /\ crows = <<>>
        /\ ccols \in (IF Part = "csv" THEN 1..MaxCols ELSE {1})

AddLine == /\ Part = "ini" /\ isets = <<>> /\ Len(itext) < MaxLines
           /\ \E l \in IniLines : itext' = Append(itext, l)
           /\ UNCHANGED <<istyle, isets, crows, ccols>>
\* set("section/key", v); a top-level key only where a plain name addresses the top section
AddSet == /\ Part = "ini" /\ Len(isets) < MaxSets
          /\ \E sk \in SetNames : /\ (IF sk[1] = Top THEN PlainOK(IText) ELSE TRUE)
                                  \* (a new key set to "" is not persisted by design; if it would have been the only
                                  \*  top-level entry, plain names address another section afterwards)
                                  /\ (IF sk[1] = Top /\ SetValues[Len(isets) + 1] = <<>> THEN HasTopEntries(IText) ELSE TRUE)
                                  /\ isets' = Append(isets, [sec |-> sk[1], key |-> sk[2], val |-> SetValues[Len(isets) + 1]])
          /\ UNCHANGED <<itext, istyle, crows, ccols>>
RowsDone == crows = <<>> \/ Len(crows[Len(crows)]) = ccols
AddCell == /\ Part = "csv"
           /\ \E c \in Cells :
                 IF RowsDone THEN (Len(crows) + 1) * ccols <= MaxCells /\ crows' = Append(crows, <<c>>)
                 ELSE crows' = [crows EXCEPT ![Len(crows)] = Append(@, c)]
           /\ UNCHANGED <<itext, istyle, isets, ccols>>
Next == AddLine \/ AddSet \/ AddCell
Spec == Init /\ [][Next]_vars

(* properties of the specification itself *)
\* parser, requirement and reference writer agree on every generated case; rewriting the result changes nothing more
RefWriterOK == Part = "ini" => LET t == IText
                                   w == RefWrite(t, isets)
                               IN IniOK(t, isets, w) /\ IniOK(w, <<>>, w)
\* the reader inverts the writer on every generated table
CsvRoundTrip == (Part = "csv" /\ RowsDone) => CsvOK(crows, ccols)
\* the rendering of a number is recognized as a number, no generated string is
CellsOK == Part = "csv" => \A c \in Cells : (c.t = "n") = IsNumText(Norm(c).s)

-------------------------------------------------------------------------------
(* emission: one case per transition *)
IniCase(text, sets) ==
    [k |-> "ini", text |-> text, sets |-> sets,
     exp |-> LET at == Assigns(text) \o sets
                 ks == SetToSeq(KeysOf(at))
             IN [i \in 1..Len(ks) |-> [sec |-> ks[i][1], key |-> ks[i][2], val |-> Lookup(at, ks[i][1], ks[i][2])]],
     hz |-> IF LastLineHazard(text) THEN {"LastLineNoNewline"} ELSE {}]
CsvCase(rows, n) ==
    [k |-> "csv", cols |-> n,
     rows |-> [i \in 1..Len(rows) |-> [j \in 1..Len(rows[i]) |->
                  IF rows[i][j].t = "n" THEN [t |-> "n", s |-> NumText(rows[i][j])] ELSE [t |-> "s", s |-> rows[i][j].s]]],
     file |-> CsvText(rows, n),
     hz |-> IF \E i \in 1..Len(rows) : \E j \in 1..Len(rows[i]) : TinyScale(rows[i][j]) THEN {"TinyNumberScale"} ELSE {}]
Emit == IF Part = "ini" THEN PrintT(ToJson(IniCase(TextOf(itext', istyle'), isets')))
        ELSE IF crows' = <<>> \/ Len(crows'[Len(crows')]) = ccols' THEN PrintT(ToJson(CsvCase(crows', ccols')))
        ELSE TRUE
===============================================================================
