-------------------------------- MODULE IniCsv --------------------------------
(* C18 - asl::IniFile and asl::TabularDataFile persist exactly what was set or written.

   Both halves are specified as relations between byte strings, so that one vocabulary serves both bindings:

   INI.  A text is a sequence of lines (section headers, key=value entries with optional indentation, comments,
         blank lines; LF or CR LF; with or without a final newline).  Assigns(text) is the list of (section, key,
         value) entries in file order (Parse), Expected(text, sets) what a reader must see after the edits, and
         IniOK(text, sets, w) is the requirement on the rewritten file w:
            values:  every pre-existing and every set key looks up in w as Expected says,
            order:   the comment lines and the entries no set() touched appear in w in their original relative
                     order, unchanged (Items(w) = Items(text)).
         RefWrite is a reference writer (rewrite touched entries in place, add new ones); TLC checks
         IniOK(text, sets, RefWrite(text, sets)) for every generated case, i.e. parser, requirement and writer -
         three independent formulations - agree.
   CSV.  A table is a sequence of rows of cells; a cell is a string or a number given by sign, decimal digits
         and exponent (no floating point).  NumText is the "%.15g" rendering, CsvText the writer (quote a string
         iff it contains the separator or a quote, double the quotes), CsvRows the reader (quote state per line);
         TLC checks CsvRows(CsvText(rows)) = Norm(rows) for every generated table.

   Growth (the behaviour around the two relations; sections further down):
   INI object  the IniFile object as a state machine (ApiStep): open / set / operator[] reads that must not persist
               anything / current section / Qt-style arrays / write() / write(name) / a write that fails / destructor,
               with has(), operator()(name, default), sectionNames(), values() as observations; a UTF-8 byte order
               mark is not part of the first line; a write adds no key nobody set (KeysOK) and keeps the sections.
   CSV dialect separator / decimal symbol / quote-everything / flushEvery / short rows ended with "\n" on the writing
               side (CsvWOK), and a general reader (CsvRead: byte order mark, CR LF, detection of separator, decimal
               symbol and header line, ragged rows, trailing separator, last row without newline, readAs types) for
               files produced by other tools; ARFF output.

   R: MC_IniCsv_*.cfg emit one case per transition (text + edits + expected lookups / table + expected file text)
      -> harness/c18_replay, which also logs what the real classes produced;
   V: Trace_IniCsv validates those logs and the logs of the random recorder harness/c18_record: TLC evaluates
      IniOK / CsvRows / Norm on the bytes the implementation wrote and read; for the growth parts: ApiStep call by
      call with WriteOK on the real bytes of every write, CsvWOK / ArffOK / CsvRead on the real files.            *)
EXTENDS Integers, Sequences, FiniteSets, TLC, Json, SequencesExt

CONSTANTS Part,        \* which generator runs in model-checking mode: "ini", "csv"; growth: "api", "csvw", "csvr" ("trace": none)
          IniLines,    \* line alphabet (set of byte strings) of generated INI texts
          MaxLines,    \* maximal number of lines of a generated text
          SetNames,    \* <<section, key>> pairs the generated set() calls address
          SetValues,   \* sequence of values: the i-th set() call of a history writes SetValues[i]
          MaxSets,     \* maximal number of set() calls
          Cells,       \* cell alphabet of generated tables
          MaxCols, MaxCells \* tables have at most MaxCols columns and MaxCells cells

VARIABLES itext,       \* INI: lines so far
          istyle,      \* INI: <<newline, final>>: newline "LF"/"CRLF", final = text ends with a newline
          isets,       \* INI: set() calls so far: sequence of [sec, key, val]
          crows,       \* CSV: rows so far (the last one possibly incomplete)
          ccols,       \* CSV: number of columns
          ibom,        \* growth: the generated text starts with a UTF-8 byte order mark
          copt,        \* growth: CSV writer options / reader dialect of the generated case
          ast,         \* growth: the IniFile object and its files (see ApiStart)
          ahist        \* growth: history - the mutating calls made so far (with their expected results)
vars == <<itext, istyle, isets, crows, ccols, ibom, copt, ast, ahist>>

LF == 10
CR == 13
Top == <<45>>          \* "-": the name the library gives the section of entries before the first header

-------------------------------------------------------------------------------
(* sequence helpers (non-recursive or balanced: texts of the recorded traces are a few KB) *)
RECURSIVE FlatR(_, _, _)
FlatR(ss, lo, hi) == IF lo > hi THEN <<>> ELSE IF lo = hi THEN ss[lo]
                     ELSE LET mid == (lo + hi) \div 2 IN FlatR(ss, lo, mid) \o FlatR(ss, mid + 1, hi)
Flat(ss) == FlatR(ss, 1, Len(ss))
Positions(t, b) == SetToSortSeq({i \in 1..Len(t) : t[i] = b}, <)
Filter(s, P(_)) == LET keep == SetToSortSeq({i \in 1..Len(s) : P(s[i])}, <) IN [k \in 1..Len(keep) |-> s[keep[k]]]
\* split at LF, one CR before an LF dropped (FileModel!Lines)
Lines(t) == LET ps == Positions(t, LF)
                n == Len(ps)
                From(k) == IF k = 1 THEN 1 ELSE ps[k - 1] + 1
                To(k) == IF k = n + 1 THEN Len(t)
                         ELSE IF ps[k] > From(k) /\ t[ps[k] - 1] = CR THEN ps[k] - 2 ELSE ps[k] - 1
            IN [k \in 1..(n + 1) |-> SubSeq(t, From(k), To(k))]
IsBlank(c) == c \in {32, 9, 10, 13}
\* (first / last element through the sorted sequence: a CHOOSE over all pairs is quadratic, and recorded lines have up to 2500 bytes)
Trim(s) == LET nb == SetToSortSeq({i \in 1..Len(s) : ~IsBlank(s[i])}, <)
           IN IF nb = <<>> THEN <<>> ELSE SubSeq(s, nb[1], nb[Len(nb)])
FirstPos(s, b) == LET ps == SetToSortSeq({i \in 1..Len(s) : s[i] = b}, <) IN IF ps = <<>> THEN 0 ELSE ps[1]

\* a UTF-8 byte order mark in front of a text is not part of its first line
Bom == <<239, 187, 191>>
HasBom(t) == IF Len(t) >= 3 THEN SubSeq(t, 1, 3) = Bom ELSE FALSE
Body(t) == IF HasBom(t) THEN SubSeq(t, 4, Len(t)) ELSE t
ILines(t) == Lines(Body(t))

-------------------------------------------------------------------------------
(* INI: classification of a line *)
FirstInk(l) == LET nb == SetToSortSeq({i \in 1..Len(l) : ~IsBlank(l[i])}, <) IN IF nb = <<>> THEN 0 ELSE l[nb[1]]
IsHeader(l)  == Len(l) >= 2 /\ l[1] = 91 /\ FirstPos(l, 93) > 0
HeaderName(l) == SubSeq(l, 2, FirstPos(l, 93) - 1)
IsComment(l) == FirstInk(l) \in {35, 59}
IsKV(l)      == ~IsHeader(l) /\ ~IsComment(l) /\ FirstInk(l) > 47 /\ FirstPos(l, 61) > 1
KeyOf(l)     == Trim(SubSeq(l, 1, FirstPos(l, 61) - 1))
ValOf(l)     == Trim(SubSeq(l, FirstPos(l, 61) + 1, Len(l)))

\* the section an entry on line i belongs to
SecAt(ls, i) == LET hs == {j \in 1..i : IsHeader(ls[j])}
                IN IF hs = {} THEN Top ELSE HeaderName(ls[CHOOSE j \in hs : \A k \in hs : j >= k])
\* Parse: the entries in file order
AssignsL(ls) == LET idx == SetToSortSeq({i \in 1..Len(ls) : IsKV(ls[i])}, <)
                IN [k \in 1..Len(idx) |-> [sec |-> SecAt(ls, idx[k]), key |-> KeyOf(ls[idx[k]]), val |-> ValOf(ls[idx[k]])]]
Assigns(text) == AssignsL(ILines(text))
\* value of sec/key: the last entry wins; an absent key reads as the empty string
Lookup(as, sec, key) == LET m == {i \in 1..Len(as) : as[i].sec = sec /\ as[i].key = key}
                        IN IF m = {} THEN <<>> ELSE as[CHOOSE i \in m : \A j \in m : i >= j].val
KeysOf(as) == {<<as[i].sec, as[i].key>> : i \in 1..Len(as)}
\* what a fresh IniFile must return after the edits
Expected(text, sets, sec, key) == Lookup(Assigns(text) \o sets, sec, key)
Touched(sets) == KeysOf(sets)

\* comments (verbatim) and untouched entries (their section and key), in file order
ItemsL(ls, touched) ==
    LET idx == SetToSortSeq({i \in 1..Len(ls) : IsComment(ls[i]) \/ (IsKV(ls[i]) /\ <<SecAt(ls, i), KeyOf(ls[i])>> \notin touched)}, <)
    IN [k \in 1..Len(idx) |-> IF IsComment(ls[idx[k]]) THEN [c |-> ls[idx[k]]]
                              ELSE [sec |-> SecAt(ls, idx[k]), key |-> KeyOf(ls[idx[k]])]]

\* (Assigns(text) \o sets is the history a reader must account for: later entries and later set() calls win)
\* (a value is what follows '=' without the blanks around it: "color = white" in the documentation)
TrimSets(sets) == [i \in 1..Len(sets) |-> [sets[i] EXCEPT !.val = Trim(@)]]
ValuesOK(text, sets, w) == LET at == Assigns(text) \o TrimSets(sets)
                               aw == Assigns(w)
                           IN \A sk \in KeysOf(at) : Lookup(aw, sk[1], sk[2]) = Lookup(at, sk[1], sk[2])
OrderOK(text, sets, w)  == ItemsL(ILines(w), Touched(sets)) = ItemsL(ILines(text), Touched(sets))
IniOK(text, sets, w)    == ValuesOK(text, sets, w) /\ OrderOK(text, sets, w)

\* a plain key name (no "section/") addresses the top section when the text has top-level entries or no header at all
PlainOK(text) == LET ls == ILines(text) IN
                 \/ {i \in 1..Len(ls) : IsHeader(ls[i])} = {}
                 \/ \E i \in 1..Len(ls) : IsKV(ls[i]) /\ SecAt(ls, i) = Top

HasTopEntries(text) == LET ls == ILines(text) IN \E i \in 1..Len(ls) : IsKV(ls[i]) /\ SecAt(ls, i) = Top

\* the defect of the unchanged tree (DESIGN.md section 7): the reader stops before a last line that has no newline
EndsWithNewline(text) == text = <<>> \/ text[Len(text)] = LF
LastLineHazard(text) == ~EndsWithNewline(text) /\ IsKV(ILines(text)[Len(ILines(text))])

(* a reference writer: touched entries rewritten in place, new entries added (top-level ones in front, the others under
   a header appended at the end).  Any writer that satisfies IniOK is acceptable; this one shows the requirement is
   satisfiable and cross-checks parser and requirement. *)
JoinLF(ls) == Flat([i \in 1..Len(ls) |-> ls[i] \o <<LF>>])
KVLine(key, val) == key \o <<61>> \o val
RefWrite(text, sets) ==
    LET ls0 == ILines(text)
        ls == IF ls0[Len(ls0)] = <<>> THEN SubSeq(ls0, 1, Len(ls0) - 1) ELSE ls0          \* no phantom last line
        at == AssignsL(ls) \o sets
        old == KeysOf(AssignsL(ls))
        touched == Touched(sets)
        inplace == [i \in 1..Len(ls) |->
                       IF IsKV(ls[i]) /\ <<SecAt(ls, i), KeyOf(ls[i])>> \in touched
                       THEN KVLine(KeyOf(ls[i]), Lookup(at, SecAt(ls, i), KeyOf(ls[i]))) ELSE ls[i]]
        \* new keys, each once, in the order of their first set()
        firsts == SetToSortSeq({i \in 1..Len(sets) : <<sets[i].sec, sets[i].key>> \notin old
                                    /\ Trim(Lookup(at, sets[i].sec, sets[i].key)) # <<>>      \* (a new key without value: not written)
                                    /\ \A j \in 1..(i - 1) : <<sets[j].sec, sets[j].key>> # <<sets[i].sec, sets[i].key>>}, <)
        news == [k \in 1..Len(firsts) |-> sets[firsts[k]]]
        newTop == Filter(news, LAMBDA s : s.sec = Top)
        newSec == Filter(news, LAMBDA s : s.sec # Top)
        front == [k \in 1..Len(newTop) |-> KVLine(newTop[k].key, Lookup(at, Top, newTop[k].key))]
        back == Flat([k \in 1..Len(newSec) |-> << <<91>> \o newSec[k].sec \o <<93>>,
                                                  KVLine(newSec[k].key, Lookup(at, newSec[k].sec, newSec[k].key)) >>])
    IN IF sets = <<>> THEN text ELSE JoinLF(front \o inplace \o back)

-------------------------------------------------------------------------------
(* INI growth: what a write may do besides IniOK, and the IniFile object as a state machine *)
NoSec == <<0>>                 \* in a name: no "section/" part (resolved against the current section); as current section: unknown
Slash == 47
DefaultVal == <<1, 68>>        \* the default handed to operator()(name, default); no value of any scope equals it
HeaderNames(text) == LET ls == ILines(text) IN {HeaderName(ls[i]) : i \in {j \in 1..Len(ls) : IsHeader(ls[j])}} \ {Top}
SetSecs(sets) == {sets[i].sec : i \in 1..Len(sets)}
\* keys a set() left without value: a writer may leave them out (has() of a fresh object is then not determined)
EmptySet(sets) == {k \in KeysOf(sets) : Trim(Lookup(sets, k[1], k[2])) = <<>>}
\* a write adds no key nobody set ("persist exactly what was set": reading a missing name is not a modification)
KeysOK(text, sets, w) == KeysOf(Assigns(w)) \subseteq (KeysOf(Assigns(text)) \cup KeysOf(sets))
\* ... keeps every section and adds the sections of what was set (those of keys without value may be left out)
SectionsOK(text, sets, w) == LET hw == HeaderNames(w) IN
                             /\ (HeaderNames(text) \cup ({k[1] : k \in (KeysOf(sets) \ EmptySet(sets))} \ {Top})) \subseteq hw
                             /\ hw \subseteq (HeaderNames(text) \cup SetSecs(sets))
WriteOK(text, sets, w) == IniOK(text, sets, w) /\ KeysOK(text, sets, w) /\ SectionsOK(text, sets, w)

(* The object.  disk/exists: the file it is bound to; opt: keys of that file a conforming writer may or may not have
   written (model checking only: the reference writer leaves them out; recorded bytes speak for themselves);
   open, sw (the constructor's shouldwrite), base = the text it was opened on (bmem, bsecs: its entries and section names), bopt = opt at that time,
   sets = set() calls since then (sections resolved), cur = current section for plain names (Top when the text has
   top-level entries or no header, otherwise not documented until section()/arraysize() name one),
   reads = missing names read through the non-const operator[], named = sections named by section() / arraysize()
   (whether such names show up in sectionNames() / values() is not documented), rp / fw = the shape of the finding
   ReadPersisted / FailedWriteLines occurred. *)
ApiStart(text, ex) == [disk |-> text, exists |-> ex, opt |-> {}, open |-> FALSE, sw |-> TRUE,
                       base |-> <<>>, bmem |-> <<>>, bsecs |-> {}, bopt |-> {}, sets |-> <<>>, cur |-> NoSec, reads |-> {}, named |-> {}, rp |-> FALSE, fw |-> FALSE]
ApiMem(a) == a.bmem \o a.sets
ApiSec(a, sec) == IF sec = NoSec THEN a.cur ELSE sec
ApiHas(a, sec, key) == LET k == <<sec, key>> IN
                       IF k \in a.bopt /\ k \notin KeysOf(a.sets) THEN "u"
                       ELSE IF k \in KeysOf(ApiMem(a)) THEN "t"
                       ELSE IF k \in a.reads THEN "u" ELSE "f"
RECURSIVE ToInt(_)
ToInt(s) == IF s = <<>> THEN 0 ELSE IF IsBlank(s[Len(s)]) \/ s[Len(s)] < 48 \/ s[Len(s)] > 57 THEN 0
            ELSE 10 * ToInt(SubSeq(s, 1, Len(s) - 1)) + (s[Len(s)] - 48)
ArrayKey(idx, field) == <<48 + idx + 1, 92>> \o field          \* "<index+1>\<field>" (Qt style arrays), index < 9

ApiOpen(a, sw) == LET t == IF a.exists THEN a.disk ELSE <<>> IN
                  [a EXCEPT !.open = TRUE, !.sw = sw, !.base = t, !.bmem = Assigns(t), !.bsecs = HeaderNames(t), !.bopt = a.opt, !.sets = <<>>, !.reads = {}, !.named = {},
                            !.cur = IF PlainOK(t) THEN Top ELSE NoSec]
\* (w = [bytes, exists]: what is on disk after a write)
ApiWritten(a, w) == [a EXCEPT !.disk = w.bytes, !.exists = w.exists, !.opt = IF a.sets = <<>> THEN @ ELSE EmptySet(a.sets) \ KeysOf(Assigns(w.bytes))]
ApiClose(a, w) == IF a.sw THEN [ApiWritten(a, w) EXCEPT !.open = FALSE] ELSE [a EXCEPT !.open = FALSE]
\* which calls the documentation defines in state a
ApiEnabled(a, m) ==
    IF m.m = "open" THEN ~a.open
    ELSE /\ a.open
         /\ CASE m.m \in {"set", "get"} -> ApiSec(a, m.sec) # NoSec
              [] m.m = "aget" -> a.cur # NoSec
              [] m.m = "write" -> a.sw
              [] m.m = "writeTo" -> a.sw /\ a.sets # <<>>
              [] OTHER -> TRUE
\* the shape of the finding ReadPersisted: a write while a name that was only read has a new, non-empty neighbour in its section
ReadRisk(a) == \E k \in (a.reads \ KeysOf(ApiMem(a))) : \E i \in 1..Len(a.sets) :
                  /\ a.sets[i].sec = k[1] /\ <<a.sets[i].sec, a.sets[i].key>> \notin KeysOf(a.bmem)
                  /\ Trim(Lookup(a.sets, a.sets[i].sec, a.sets[i].key)) # <<>>
\* w: what a write left on disk, [bytes, exists] (model checking: the reference writer's; trace validation: the real ones)
ApiStep0(a, m, w) ==
    CASE m.m = "open" -> ApiOpen(a, m.sw)
      [] m.m = "set" -> [a EXCEPT !.sets = Append(@, [sec |-> ApiSec(a, m.sec), key |-> m.key, val |-> m.val])]
      [] m.m = "get" -> IF <<ApiSec(a, m.sec), m.key>> \in KeysOf(ApiMem(a)) THEN a ELSE [a EXCEPT !.reads = @ \cup {<<ApiSec(a, m.sec), m.key>>}]
      [] m.m \in {"cur", "asize"} -> [a EXCEPT !.cur = m.sec, !.named = @ \cup {m.sec}]
      [] m.m = "write" -> ApiWritten(a, w)
      [] m.m = "close" -> ApiClose(a, w)
      [] m.m = "reopen" -> ApiOpen(ApiClose(a, w), TRUE)
      [] OTHER -> a                                                            \* aget, writeTo, writeBad
ApiStep(a, m, w) == ApiStep0([a EXCEPT !.rp = @ \/ (m.m \in {"write", "writeTo", "close", "reopen"} /\ a.open /\ a.sw /\ a.sets # <<>> /\ ReadRisk(a)),
                                       !.fw = @ \/ (m.m = "writeBad" /\ a.open /\ a.sets # <<>>)], m, w)
\* what a call returns
ApiRet(a, m) == CASE m.m = "get" -> Lookup(ApiMem(a), ApiSec(a, m.sec), m.key)
                  [] m.m = "asize" -> ToInt(Lookup(ApiMem(a), m.sec, <<115, 105, 122, 101>>))
                  [] m.m = "aget" -> Lookup(ApiMem(a), a.cur, ArrayKey(m.idx, m.field))
                  [] OTHER -> <<>>
\* what the const queries answer on the object: per probe name operator[], has() ("u": not determined) and the admissible
\* answers of operator()(name, DefaultVal); sectionNames() (at least secs, at most secs and secsMay); values() (at least vals,
\* besides them only names of valsMay, without value).  Top-level entries are left out of values(): their spelling is not documented.
ApiObs(a, probes) ==
    LET ps == SelectSeq(probes, LAMBDA p : p.sec # NoSec \/ a.cur # NoSec)
        mem == ApiMem(a)
        optk == a.bopt \ KeysOf(a.sets)
        maybe == optk \cup (a.reads \ KeysOf(mem))
        kseq == SetToSeq({k \in (KeysOf(mem) \ optk) : k[1] # Top})
    IN [q |-> [i \in 1..Len(ps) |->
                 LET sec == ApiSec(a, ps[i].sec)
                     h == ApiHas(a, sec, ps[i].key)
                     v == Lookup(mem, sec, ps[i].key)
                 IN [sec |-> ps[i].sec, key |-> ps[i].key, v |-> v, has |-> h,
                     dflt |-> IF h = "t" THEN <<v>> ELSE IF h = "f" THEN <<DefaultVal>> ELSE <<v, DefaultVal>>]],
        secs |-> SetToSeq((a.bsecs \cup SetSecs(a.sets)) \ {Top}),
        secsMay |-> SetToSeq({k[1] : k \in maybe} \cup a.named \cup {Top}),
        vals |-> [i \in 1..Len(kseq) |-> [name |-> kseq[i][1] \o <<Slash>> \o kseq[i][2], val |-> Lookup(mem, kseq[i][1], kseq[i][2])]],
        valsMay |-> SetToSeq({k[1] \o <<Slash>> \o k[2] : k \in maybe})]

-------------------------------------------------------------------------------
(* CSV *)
Comma == 44
Quote == 34
\* "%.15g" of the number (-1)^neg * d1.d2d3... * 10^x  (digs without trailing zeros; <<0>> is zero)
Digit(d) == 48 + d
NumText(c) ==
    LET n == Len(c.digs)
        ds == [i \in 1..n |-> Digit(c.digs[i])]
        sign == IF c.neg THEN <<45>> ELSE <<>>
        zeros(k) == [i \in 1..k |-> 48]
        ax == IF c.x < 0 THEN -c.x ELSE c.x
        expo == <<101, IF c.x < 0 THEN 45 ELSE 43>> \o
                (IF ax < 10 THEN <<48, Digit(ax)>> ELSE IF ax < 100 THEN <<Digit(ax \div 10), Digit(ax % 10)>>
                 ELSE <<Digit(ax \div 100), Digit((ax \div 10) % 10), Digit(ax % 10)>>)
    IN IF c.digs = <<0>> THEN sign \o <<48>>
       ELSE IF c.x < -4 \/ c.x >= 15
            THEN sign \o <<ds[1]>> \o (IF n > 1 THEN <<46>> \o SubSeq(ds, 2, n) ELSE <<>>) \o expo
       ELSE IF c.x >= 0
            THEN IF n <= c.x + 1 THEN sign \o ds \o zeros(c.x + 1 - n)
                 ELSE sign \o SubSeq(ds, 1, c.x + 1) \o <<46>> \o SubSeq(ds, c.x + 2, n)
       ELSE sign \o <<48, 46>> \o zeros(-c.x - 1) \o ds
\* the defect of the unchanged tree found by this check: the reader scales the integer mantissa by pow(10, e) with
\* e = x - (digits - 1); below about -307 that power is subnormal or zero and the digits are lost
TinyScale(c) == c.t = "n" /\ c.digs # <<0>> /\ (c.x < -4) /\ c.x - (Len(c.digs) - 1) < -307
\* (a number cell is given by sign/digits/exponent in the generators and by its "%.15g" text in recorded events)
NumS(c) == IF "digs" \in DOMAIN c THEN NumText(c) ELSE c.s
\* what a reader returns for a written cell: the type and the text (numbers: the 15 significant digits written)
Norm(c) == [t |-> c.t, s |-> IF c.t = "n" THEN NumS(c) ELSE c.s]
NormRows(rows) == [i \in 1..Len(rows) |-> [j \in 1..Len(rows[i]) |-> Norm(rows[i][j])]]

\* writer: a string is quoted iff it contains the separator or a quote; quotes are doubled
Has(s, b) == {i \in 1..Len(s) : s[i] = b} # {}
CellText(c) == IF c.t = "n" THEN NumText(c)
               ELSE IF Has(c.s, Quote) \/ Has(c.s, Comma)
                    THEN <<Quote>> \o Flat([i \in 1..Len(c.s) |-> IF c.s[i] = Quote THEN <<Quote, Quote>> ELSE <<c.s[i]>>]) \o <<Quote>>
                    ELSE c.s
RowText(row) == Flat([j \in 1..Len(row) |-> (IF j > 1 THEN <<Comma>> ELSE <<>>) \o CellText(row[j])])
HeaderText(n) == Flat([j \in 1..n |-> (IF j > 1 THEN <<Comma>> ELSE <<>>) \o <<98 + j>>])      \* c,d,e,...
CsvText(rows, n) == HeaderText(n) \o <<LF>> \o Flat([i \in 1..Len(rows) |-> RowText(rows[i]) \o <<LF>>])

\* reader.  A position is inside quotes iff an odd number of quote characters precedes it; fields end at separators
\* outside quotes; within a field the 1st quote character opens, and of every later pair the first is dropped
QuotesBefore(l, i) == Cardinality({j \in 1..(i - 1) : l[j] = Quote})
FieldEnds(l) == SetToSortSeq({i \in 1..Len(l) : l[i] = Comma /\ QuotesBefore(l, i) % 2 = 0} \cup {Len(l) + 1}, <)
Unquote(f) == LET keep == SetToSortSeq({i \in 1..Len(f) : f[i] # Quote \/ (QuotesBefore(f, i) % 2 = 0 /\ QuotesBefore(f, i) >= 2)}, <)
              IN [k \in 1..Len(keep) |-> f[keep[k]]]
\* the texts "%.15g" produces:  -?digits(.digits)?(e[+-]digits)?
IsDigit(b) == b >= 48 /\ b <= 57
AllDigits(s) == s # <<>> /\ {i \in 1..Len(s) : ~IsDigit(s[i])} = {}
IsNumText(s) == LET body == IF s # <<>> /\ s[1] = 45 THEN Tail(s) ELSE s
                    e == FirstPos(body, 101)
                    mant == IF e = 0 THEN body ELSE SubSeq(body, 1, e - 1)
                    ex == IF e = 0 THEN <<>> ELSE SubSeq(body, e + 1, Len(body))
                    dot == FirstPos(mant, 46)
                IN /\ (IF dot = 0 THEN AllDigits(mant) ELSE AllDigits(SubSeq(mant, 1, dot - 1)) /\ AllDigits(SubSeq(mant, dot + 1, Len(mant))))
                   /\ (e = 0 \/ (Len(ex) >= 2 /\ ex[1] \in {43, 45} /\ AllDigits(Tail(ex))))
ReadCell(f) == LET u == Unquote(f) IN [t |-> IF IsNumText(u) THEN "n" ELSE "s", s |-> u]
ParseRow(l) == LET ends == FieldEnds(l) IN
               [k \in 1..Len(ends) |-> ReadCell(SubSeq(l, IF k = 1 THEN 1 ELSE ends[k - 1] + 1, ends[k] - 1))]
\* the data rows of a file: everything after the header line; the newline that ends the last row starts no further row
CsvRows(file) == LET ls == Lines(file)
                     m == IF ls[Len(ls)] = <<>> THEN Len(ls) - 1 ELSE Len(ls)
                 IN [i \in 1..(m - 1) |-> ParseRow(ls[i + 1])]
CsvOK(rows, n) == CsvRows(CsvText(rows, n)) = NormRows(rows)

-------------------------------------------------------------------------------
(* CSV growth: dialects (separator, decimal symbol, quoting), the general reader, ARFF *)
Tab == 9
Semi == 59
Dot == 46
NoneCell == [t |-> "0", s |-> <<>>]             \* operator[] outside the row / for an unknown column name
ReplaceByte(s, a, b) == [i \in 1..Len(s) |-> IF s[i] = a THEN b ELSE s[i]]
Doubled(x, q) == Flat([i \in 1..Len(x) |-> IF x[i] = q THEN <<q, q>> ELSE <<x[i]>>])
\* writer with options o = [sep, dec, q]: numbers with the decimal symbol; a string between quotes iff useQuotes() (o.q) or it
\* contains the separator or a quote
CellTextO(c, o) == IF c.t = "n" THEN ReplaceByte(NumS(c), Dot, o.dec)
                   ELSE IF o.q \/ Has(c.s, Quote) \/ Has(c.s, o.sep) THEN <<Quote>> \o Doubled(c.s, Quote) \o <<Quote>> ELSE c.s
JoinSep(fs, sep) == Flat([j \in 1..Len(fs) |-> (IF j > 1 THEN <<sep>> ELSE <<>>) \o fs[j]])
RowTextO(row, o) == JoinSep([j \in 1..Len(row) |-> CellTextO(row[j], o)], o.sep)
CsvTextO(names, rows, o) == JoinSep(names, o.sep) \o <<LF>> \o Flat([i \in 1..Len(rows) |-> RowTextO(rows[i], o) \o <<LF>>])

\* reader for a known dialect
FieldEndsS(l, sep) == SetToSortSeq({i \in 1..Len(l) : l[i] = sep /\ QuotesBefore(l, i) % 2 = 0} \cup {Len(l) + 1}, <)
RawFields(l, sep) == LET ends == FieldEndsS(l, sep) IN
                     [k \in 1..Len(ends) |-> SubSeq(l, IF k = 1 THEN 1 ELSE ends[k - 1] + 1, ends[k] - 1)]
IsNumTextD(s, dec) == IsNumText(ReplaceByte(s, dec, Dot)) /\ (dec = Dot \/ ~Has(s, Dot))
ReadCellD(f, dec) == LET u == Unquote(f) IN
                     IF IsNumTextD(u, dec) THEN [t |-> "n", s |-> ReplaceByte(u, dec, Dot)] ELSE [t |-> "s", s |-> u]
RECURSIVE HexInt(_)
HexDigit(b) == IF b >= 48 /\ b <= 57 THEN b - 48 ELSE IF b >= 97 /\ b <= 102 THEN b - 87 ELSE IF b >= 65 /\ b <= 70 THEN b - 55 ELSE 0
HexInt(s) == IF s = <<>> THEN 0 ELSE 16 * HexInt(SubSeq(s, 1, Len(s) - 1)) + HexDigit(s[Len(s)])
RECURSIVE IntText(_)
IntText(n) == IF n < 10 THEN <<48 + n>> ELSE IntText(n \div 10) \o <<48 + (n % 10)>>
\* readAs(types): i = int, h = hexadecimal int, n = number, s = string; beyond the types given: inferred
\* (cells are compared as numbers: whether an int column yields an integer or a floating point value is not documented)
ReadTyped(f, ty, dec) == LET u == Unquote(f) IN
                         CASE ty = 115 -> [t |-> "s", s |-> u]
                           [] ty = 105 -> [t |-> "n", s |-> IntText(ToInt(u))]
                           [] ty = 104 -> [t |-> "n", s |-> IntText(HexInt(u))]
                           [] ty = 110 -> [t |-> "n", s |-> ReplaceByte(u, dec, Dot)]
                           [] OTHER -> ReadCellD(f, dec)
\* readAs() on a field that is not of the type asked for: not documented
IsHexText(u) == u # <<>> /\ {i \in 1..Len(u) : ~(IsDigit(u[i]) \/ (u[i] >= 97 /\ u[i] <= 102) \/ (u[i] >= 65 /\ u[i] <= 70))} = {}
TypedOK(f, ty, dec) == LET u == Unquote(f) IN
                       CASE ty = 105 -> AllDigits(u) [] ty = 104 -> IsHexText(u) [] ty = 110 -> IsNumTextD(u, dec) [] ty = 115 -> TRUE [] OTHER -> FALSE
ParseRowD(l, sep, dec, types) == LET fs == RawFields(l, sep) IN
                                 [k \in 1..Len(fs) |-> IF k <= Len(types) THEN ReadTyped(fs[k], types[k], dec) ELSE ReadCellD(fs[k], dec)]
\* the lines of a file: byte order mark dropped, LF or CR LF, the newline that ends the last line starts no further line
FileLines(file) == LET ls == Lines(Body(file)) IN IF ls[Len(ls)] = <<>> THEN SubSeq(ls, 1, Len(ls) - 1) ELSE ls
\* what the documentation says the reader infers from the file: ';' separates (then ',' is the decimal symbol), else ',', else tab;
\* a first line without numbers is a header line
Detect(first) == IF Has(first, Semi) THEN [sep |-> Semi, dec |-> Comma]
                 ELSE IF Has(first, Comma) THEN [sep |-> Comma, dec |-> Dot]
                 ELSE IF Has(first, Tab) THEN [sep |-> Tab, dec |-> Dot] ELSE [sep |-> Comma, dec |-> Dot]
LooksNumeric(f) == IF f = <<>> THEN FALSE ELSE IsDigit(f[1]) \/ (IF Len(f) >= 2 THEN f[1] = 45 /\ IsDigit(f[2]) ELSE FALSE)
CsvRead(file, types) ==
    LET ls == FileLines(file) IN
    IF ls = <<>> THEN [hdr |-> FALSE, named |-> FALSE, names |-> <<>>, rows |-> <<>>]
    ELSE LET d == Detect(ls[1])
             f1 == RawFields(ls[1], d.sep)
             hdr == {j \in 1..Len(f1) : LooksNumeric(f1[j])} = {}
             from == IF hdr THEN 2 ELSE 1
             \* (the names of a header line with quotes in it are not documented: the writer never quotes names)
             named == hdr /\ ~Has(ls[1], Quote)
         IN [hdr |-> hdr, named |-> named, names |-> IF named THEN f1 ELSE <<>>,
             rows |-> [i \in 1..(Len(ls) - from + 1) |-> ParseRowD(ls[i + from - 1], d.sep, d.dec, types)]]
\* a field with a quote in it is well formed when it stands between quotes and the quotes inside come in pairs; anything else (a quote
\* in the middle of an unquoted field, text after the closing quote) is not documented
WellQuoted(f) == IF ~Has(f, Quote) THEN TRUE
                 ELSE IF Len(f) < 2 THEN FALSE
                 ELSE LET inner == SubSeq(f, 2, Len(f) - 1)
                          qs == {i \in 1..Len(inner) : inner[i] = Quote}
                      IN /\ f[1] = Quote /\ f[Len(f)] = Quote
                         /\ Cardinality(qs) % 2 = 0
                         /\ {i \in qs : IF QuotesBefore(inner, i) % 2 = 0 THEN (IF i < Len(inner) THEN inner[i + 1] # Quote ELSE TRUE) ELSE FALSE} = {}
ReadUnspec(file, types) ==
    LET ls == FileLines(file) IN
    IF ls = <<>> THEN FALSE
    ELSE LET d == Detect(ls[1])
             f1 == RawFields(ls[1], d.sep)
             from == IF {j \in 1..Len(f1) : LooksNumeric(f1[j])} = {} THEN 2 ELSE 1
         IN \E i \in from..Len(ls) : LET fs == RawFields(ls[i], d.sep) IN
                                      \E k \in 1..Len(fs) : \/ ~WellQuoted(fs[k])
                                                             \/ (IF k <= Len(types) THEN ~TypedOK(fs[k], types[k], d.dec) ELSE FALSE)
\* whether an empty line is a row (of one empty cell) is not documented
DropEmpty(rows) == Filter(rows, LAMBDA r : r # << [t |-> "s", s |-> <<>>] >>)
\* file[name] / file[i] on a row
FirstIdx(names, x) == LET m == {j \in 1..Len(names) : names[j] = x} IN CHOOSE j \in m : \A k \in m : j <= k
ByName(names, row) == [j \in 1..Len(names) |-> LET k == FirstIdx(names, names[j]) IN IF k <= Len(row) THEN row[k] ELSE NoneCell]

\* the file a writer with options o produced for the rows given (rows may be shorter than the header: ended with "\n"):
\* first line = the names, then the rows, cell for cell; with useQuotes() every string stands between quotes
QuotedOK(file, rows, o) == LET ls == FileLines(file)
                               cells == UNION {{<<i, j>> : j \in 1..Len(rows[i])} : i \in 1..Len(rows)}
                               Raw(p) == RawFields(ls[p[1] + 1], o.sep)
                           IN {p \in cells : IF rows[p[1]][p[2]].t = "s" /\ p[1] + 1 <= Len(ls)
                                             THEN (IF p[2] <= Len(Raw(p)) THEN (IF Raw(p)[p[2]] = <<>> THEN TRUE ELSE Raw(p)[p[2]][1] # Quote) ELSE TRUE)
                                             ELSE FALSE} = {}
CsvFileRows(file, o) == LET ls == FileLines(file) IN [i \in 1..(Len(ls) - 1) |-> ParseRowD(ls[i + 1], o.sep, o.dec, <<>>)]
CsvWOK(file, names, rows, o) == LET ls == FileLines(file) IN
                                /\ ls # <<>>
                                /\ (IF ls # <<>> THEN ls[1] = JoinSep(names, o.sep) ELSE FALSE)
                                /\ CsvFileRows(file, o) = NormRows(rows)
                                /\ (o.q => QuotedOK(file, rows, o))
\* dialects the documented inference recovers (a single column shows no separator)
Readable(o, ncols) == \/ (o.sep = Comma /\ o.dec = Dot)
                      \/ (ncols >= 2 /\ ((o.sep = Semi /\ o.dec = Comma) \/ (o.sep = Tab /\ o.dec = Dot)))
\* what a reader returns for that file: the rows - preceded by the names when they do not pass for a header line
NameCells(names) == [j \in 1..Len(names) |-> ReadCellD(names[j], Dot)]
ReadBack(names, rows) == IF {j \in 1..Len(names) : LooksNumeric(names[j])} = {} THEN NormRows(rows) ELSE <<NameCells(names)>> \o NormRows(rows)

\* ARFF output (file name *.arff): relation, one @attribute line per column (numeric / string / {a,b}), @data, the rows with ' as quote
\* (q: useQuotes())
ArffType(ty) == IF ty = <<>> THEN <<110, 117, 109, 101, 114, 105, 99>>                           \* numeric
                ELSE IF ty = <<115>> THEN <<115, 116, 114, 105, 110, 103>>                      \* string
                ELSE <<123>> \o ReplaceByte(ty, 124, Comma) \o <<125>>                          \* {a,b}
Apostrophe == 39
ArffCell(c, q) == IF c.t = "n" THEN NumS(c)
               ELSE IF q \/ Has(c.s, Apostrophe) \/ Has(c.s, Comma) THEN <<Apostrophe>> \o Doubled(c.s, Apostrophe) \o <<Apostrophe>> ELSE c.s
ArffLines(rel, cols, rows, q) ==
    << <<64, 114, 101, 108, 97, 116, 105, 111, 110, 32>> \o rel >>                                \* @relation <rel>
    \o [j \in 1..Len(cols) |-> <<64, 97, 116, 116, 114, 105, 98, 117, 116, 101, 32>> \o cols[j].name \o <<32>> \o ArffType(cols[j].ty)]
    \o << <<64, 100, 97, 116, 97>> >>                                                              \* @data
    \o [i \in 1..Len(rows) |-> JoinSep([j \in 1..Len(rows[i]) |-> ArffCell(rows[i][j], q)], Comma)]
\* blank lines carry no meaning in ARFF (a row of one empty string is one)
ArffOK(file, rel, cols, rows, q) == Filter(FileLines(file), LAMBDA l : l # <<>>) = Filter(ArffLines(rel, cols, rows, q), LAMBDA l : l # <<>>)

-------------------------------------------------------------------------------
(* model-checking mode: generators *)
Newline(st) == IF st = "CRLF" THEN <<CR, LF>> ELSE <<LF>>
TextOf(ls, st) == Flat([i \in 1..Len(ls) |-> ls[i] \o (IF i < Len(ls) \/ st[2] THEN Newline(st[1]) ELSE <<>>)])
IText == TextOf(itext, istyle)

\* growth parts: their alphabets are definitions that the configurations override (MC_IniCsv.tla), so that the configurations
\* of the other parts need not mention them
ApiTexts == {}         \* "api": set of [text, exists, sw]: the file the object is opened on
ApiMuts == {}          \* "api": the calls generated: [m |-> "set", sec, key, val], [m |-> "get", sec, key], [m |-> "cur", sec], ...
ApiProbes == <<>>      \* "api": names the const queries ask for after the last call
MaxMuts == 0
ApiDeep(h, m) == FALSE \* "api": one call beyond MaxMuts is generated for the histories (and next calls) this holds for
CsvOpts == {}          \* "csvw": set of [sep, dec, q, flush, arff, names, types]
CsvTypes == {}         \* "csvr": set of readAs() strings (used with the lines of dialect 4)
CsvLinesOf == <<{}, {}, {}, {}>> \* "csvr": line alphabets: 1 comma, 2 semicolon + decimal comma, 3 tab, 4 typed columns
NoOpt == <<>>
EolCell == [t |-> "e"] \* "csvw": pseudo cell: the row is ended early with "\n"

Init == /\ itext = <<>> /\ isets = <<>>
        /\ istyle \in (IF Part \in {"ini", "csvr"} THEN {"LF", "CRLF"} \X BOOLEAN ELSE {<<"LF", TRUE>>})
        /\ crows = <<>>
        /\ ccols \in (IF Part = "csv" THEN 1..MaxCols ELSE IF Part = "csvr" THEN 1..4 ELSE {1})      \* ("csvr": the dialect)
        /\ copt \in (IF Part = "csvw" THEN CsvOpts ELSE IF Part = "csvr" /\ ccols = 4 THEN CsvTypes ELSE {NoOpt})
        /\ ibom \in (IF Part = "csvr" THEN BOOLEAN ELSE {FALSE})
        /\ ast \in (IF Part = "api" THEN {ApiOpen(ApiStart(t.text, t.exists), t.sw) : t \in ApiTexts} ELSE {NoOpt})
        /\ ahist = (IF Part = "api" THEN << [m |-> "new", text |-> ast.disk, exists |-> ast.exists, sw |-> ast.sw] >> ELSE <<>>)

Growth == <<ibom, copt, ast, ahist>>
AddLine == /\ Part \in {"ini", "csvr"} /\ isets = <<>> /\ Len(itext) < MaxLines
           /\ \E l \in (IF Part = "csvr" THEN CsvLinesOf[ccols] ELSE IniLines) : itext' = Append(itext, l)
           /\ UNCHANGED <<istyle, isets, crows, ccols, Growth>>
\* set("section/key", v); a top-level key only where a plain name addresses the top section
AddSet == /\ Part = "ini" /\ Len(isets) < MaxSets
          /\ \E sk \in SetNames : /\ (IF sk[1] = Top THEN PlainOK(IText) ELSE TRUE)
                                  \* (a new key set to "" is not persisted by design; if it would have been the only
                                  \*  top-level entry, plain names address another section afterwards)
                                  /\ (IF sk[1] = Top /\ SetValues[Len(isets) + 1] = <<>> THEN HasTopEntries(IText) ELSE TRUE)
                                  /\ isets' = Append(isets, [sec |-> sk[1], key |-> sk[2], val |-> SetValues[Len(isets) + 1]])
          /\ UNCHANGED <<itext, istyle, crows, ccols, Growth>>
RowsDone == crows = <<>> \/ Len(crows[Len(crows)]) = ccols
AddCell == /\ Part = "csv"
           /\ \E c \in Cells :
                 IF RowsDone THEN (Len(crows) + 1) * ccols <= MaxCells /\ crows' = Append(crows, <<c>>)
                 ELSE crows' = [crows EXCEPT ![Len(crows)] = Append(@, c)]
           /\ UNCHANGED <<itext, istyle, isets, ccols, Growth>>
\* "csvw": rows for a writer with options; a row is complete with ccols cells or when ended early
WCols == Len(copt.names)
RowDoneW(r) == IF r = <<>> THEN FALSE ELSE Len(r) = WCols \/ r[Len(r)] = EolCell
RowsDoneW(rows) == IF rows = <<>> THEN TRUE ELSE RowDoneW(rows[Len(rows)])
StripE(rows) == [i \in 1..Len(rows) |-> SelectSeq(rows[i], LAMBDA c : c # EolCell)]
AddCellW == /\ Part = "csvw"
            /\ \E c \in Cells :
                  IF RowsDoneW(crows) THEN c # EolCell /\ (Len(crows) + 1) * WCols <= MaxCells /\ crows' = Append(crows, <<c>>)
                  ELSE crows' = [crows EXCEPT ![Len(crows)] = Append(@, c)]
            /\ UNCHANGED <<itext, istyle, isets, ccols, Growth>>
\* "api": one more call on the object
ApiDo == /\ Part = "api" /\ Len(ahist) <= MaxMuts + 1
         /\ \E m \in ApiMuts :
               /\ (IF Len(ahist) <= MaxMuts THEN TRUE ELSE ApiDeep(ahist, m))
               /\ ApiEnabled(ast, m)
               /\ ast' = ApiStep(ast, m, IF ast.sets = <<>> THEN [bytes |-> ast.disk, exists |-> ast.exists]            \* nothing was set: no write
                                         ELSE [bytes |-> RefWrite(ast.base, ast.sets), exists |-> TRUE])
               /\ ahist' = Append(ahist, [c |-> m, r |-> ApiRet(ast, m)])
         /\ UNCHANGED <<itext, istyle, isets, crows, ccols, ibom, copt>>
Next == AddLine \/ AddSet \/ AddCell \/ AddCellW \/ ApiDo
Spec == Init /\ [][Next]_vars

(* properties of the specification itself *)
\* parser, requirement and reference writer agree on every generated case; rewriting the result changes nothing more
RefWriterOK == Part = "ini" => LET t == IText
                                   w == RefWrite(t, isets)
                               IN IniOK(t, isets, w) /\ IniOK(w, <<>>, w)
\* the reader inverts the writer on every generated table
CsvRoundTrip == (Part = "csv" /\ RowsDone) => CsvOK(crows, ccols)
\* the rendering of a number is recognized as a number, no generated string is
CellsOK == Part = "csv" => \A c \in Cells : (c.t = "n") = IsNumText(Norm(c).s)
\* growth: the reference writer meets the whole requirement on a write in every state of the object the generator reaches, and
\* what it wrote reads back (a fresh object on it) as the values the object held, without the blanks around them
ApiRefOK == (Part = "api" /\ ast # NoOpt) =>
               (IF ast.open /\ ast.sets # <<>>
                THEN LET w == RefWrite(ast.base, ast.sets) IN
                     /\ WriteOK(ast.base, ast.sets, w)
                     /\ \A k \in KeysOf(ApiMem(ast)) : Lookup(Assigns(w), k[1], k[2]) = Trim(Lookup(ApiMem(ast), k[1], k[2]))
                ELSE TRUE)
\* growth: the general reader inverts the writer with options, and recovers the table by inference for the dialects it can infer
CsvWText == CsvTextO(copt.names, StripE(crows), copt)
CsvWLaw == (Part = "csvw" /\ RowsDoneW(crows) /\ ~copt.arff) =>
              /\ CsvWOK(CsvWText, copt.names, StripE(crows), copt)
              /\ (Readable(copt, WCols) => CsvRead(CsvWText, <<>>).rows = ReadBack(copt.names, StripE(crows)))
\* growth: newline style and byte order mark do not change what the reader returns
CsvRText == (IF ibom THEN Bom ELSE <<>>) \o TextOf(itext, istyle)
CsvRLaw == Part = "csvr" => CsvRead(CsvRText, copt) = CsvRead(TextOf(itext, <<"LF", istyle[2]>>), copt)

-------------------------------------------------------------------------------
(* emission: one case per transition *)
IniCase(text, sets) ==
    [k |-> "ini", text |-> text, sets |-> sets,
     exp |-> LET at == Assigns(text) \o sets
                 ks == SetToSeq(KeysOf(at))
             IN [i \in 1..Len(ks) |-> [sec |-> ks[i][1], key |-> ks[i][2], val |-> Lookup(at, ks[i][1], ks[i][2])]],
     hz |-> IF LastLineHazard(text) THEN {"LastLineNoNewline"} ELSE {}]
RenderRows(rows) == [i \in 1..Len(rows) |-> [j \in 1..Len(rows[i]) |->
                        IF rows[i][j].t = "n" THEN [t |-> "n", s |-> NumS(rows[i][j])] ELSE [t |-> "s", s |-> rows[i][j].s]]]
CsvCase(rows, n) ==
    [k |-> "csv", cols |-> n,
     rows |-> RenderRows(rows),
     file |-> CsvText(rows, n),
     hz |-> IF \E i \in 1..Len(rows) : \E j \in 1..Len(rows[i]) : TinyScale(rows[i][j]) THEN {"TinyNumberScale"} ELSE {}]
\* growth cases.  The hazards name the findings of the growth round (see checks/C18.py):
\*   BomFirstLine     the text starts with a byte order mark (the first line was misread)
\*   ReadPersisted    a missing name was read through the non-const operator[] (a later write stored "name=")
\*   FailedWriteLines a write failed after something was set (the object kept the lines added for it; the next write read before the first line)
ApiCase(a, h) ==
    [k |-> "api", text |-> h[1].text, exists |-> h[1].exists, sw |-> h[1].sw,
     steps |-> [i \in 1..(Len(h) - 1) |-> h[i + 1]],
     open |-> a.open,
     obs |-> ApiObs(a, ApiProbes),
     hz |-> (IF HasBom(h[1].text) THEN {"BomFirstLine"} ELSE {})
            \* (the replayer destroys the object at the end of a case: one more write)
            \cup (IF a.rp \/ (a.open /\ a.sw /\ a.sets # <<>> /\ ReadRisk(a)) THEN {"ReadPersisted"} ELSE {})
            \cup (IF a.fw THEN {"FailedWriteLines"} ELSE {})]
\*   QuotesNotUsed    useQuotes() (the strings were written without quotes)
CsvWCase(rows, o) ==
    [k |-> "csvw", sep |-> o.sep, dec |-> o.dec, q |-> o.q, flush |-> o.flush, arff |-> o.arff, names |-> o.names, types |-> o.types,
     rows |-> RenderRows(StripE(rows)),
     early |-> [i \in 1..Len(rows) |-> rows[i][Len(rows[i])] = EolCell], rel |-> <<116>>,
     file |-> IF o.arff THEN <<>> ELSE CsvTextO(o.names, StripE(rows), o),
     readable |-> ~o.arff /\ Readable(o, Len(o.names)),
     back |-> IF o.arff THEN <<>> ELSE ReadBack(o.names, StripE(rows)),
     hz |-> IF o.q THEN {"QuotesNotUsed"} ELSE {}]
\*   LastRowNoNewline the file does not end with a newline (the reader dropped the last row)
CsvRCase(file, types) ==
    LET r == CsvRead(file, types) IN
    [k |-> "csvr", file |-> file, types |-> types, unspec |-> ReadUnspec(file, types), hdr |-> r.named, names |-> r.names, rows |-> r.rows,
     byname |-> [i \in 1..Len(r.rows) |-> ByName(r.names, r.rows[i])],
     hz |-> IF file # <<>> /\ ~EndsWithNewline(file) THEN {"LastRowNoNewline"} ELSE {}]
Emit == CASE Part = "ini" -> PrintT(ToJson(IniCase(TextOf(itext', istyle'), isets')))
          [] Part = "csv" -> IF crows' = <<>> \/ Len(crows'[Len(crows')]) = ccols' THEN PrintT(ToJson(CsvCase(crows', ccols'))) ELSE TRUE
          [] Part = "api" -> PrintT(ToJson(ApiCase(ast', ahist')))
          [] Part = "csvw" -> IF RowsDoneW(crows') THEN PrintT(ToJson(CsvWCase(crows', copt'))) ELSE TRUE
          [] Part = "csvr" -> PrintT(ToJson(CsvRCase((IF ibom' THEN Bom ELSE <<>>) \o TextOf(itext', istyle'), copt')))
          [] OTHER -> TRUE
===============================================================================
