---------------------------- MODULE Trace_Ident ----------------------------
(* X01 part `ident`, V direction: validates runs of asl::Uuid::generate() and asl::Random recorded by
   harness/x01_ident_record.cpp.  One ndjson line per event (arguments + results); a line is accepted iff the results
   satisfy the predicates of Ident.tla for the arguments.  `seen` carries the uuids generated so far (uniqueness).   *)
EXTENDS Ident, TLC, Json, IOUtils

T == ndJsonDeserialize(IOEnv.TRACE)
VARIABLES l, seen

AllOf(s, P(_)) == \A i \in 1..Len(s) : P(s[i])
IsLimb(x) == x \in 0..65535

\* representable bounds per integer type (the arguments the recorder may use)
TypeRange(ty) == IF ty = "short" THEN [lo |-> -32768, hi |-> 32767]
                 ELSE IF ty = "byte" THEN [lo |-> 0, hi |-> 255]
                 ELSE IF ty = "uint" THEN [lo |-> 0, hi |-> 2147483647]
                 ELSE [lo |-> -2147483647, hi |-> 2147483647]

GenOK(e) == /\ IsV4(e.u)                      \* "Generates an UUID (version 4)"
            /\ e.t = Format(e.u)              \* its text
            /\ Parse(e.t) = [ok |-> TRUE, v |-> e.back] /\ e.back = e.u /\ e.eq = 1
            /\ e.u \notin seen                \* unique
IntOK(e) == /\ e.ty \in {"int", "short", "long", "uint", "byte"}
            /\ e.a <= e.b /\ e.a >= TypeRange(e.ty).lo /\ e.b <= TypeRange(e.ty).hi
            /\ e.one = 1 => e.a = 0
            /\ Len(e.xs) > 0
            /\ \A i \in 1..Len(e.xs) : InRange(e.a, e.b, e.xs[i])
HistOK(e) == /\ e.a <= e.b /\ e.b - e.a < 8 /\ e.n = 4096
             /\ SumSeq(e.c) + e.out = e.n
             /\ UniformHist(e.a, e.b, e.n, e.c, e.out)
DblOK(e) == /\ e.a16 <= e.b16 /\ Len(e.lo) = Len(e.hi) /\ Len(e.lo) > 0
            /\ e.ty \in {1, 3} => e.a16 = 0
            /\ \A i \in 1..Len(e.lo) : e.lo[i] <= e.hi[i] /\ e.hi[i] - e.lo[i] <= 1
                                       /\ InRangeScaled(e.a16, e.b16, e.lo[i], e.hi[i])
BytesOK(e) == /\ e.n >= 0 /\ Len(e.runs) = Len(e.fills) /\ Len(e.guards) = Len(e.fills) /\ Len(e.fills) = 4
              /\ \A k \in 1..Len(e.runs) : /\ Len(e.runs[k]) = e.n /\ AllOf(e.runs[k], IsByte)
                                           /\ Len(e.guards[k]) = 16 /\ AllEq(e.guards[k], 195)      \* nothing outside the n bytes
                                           /\ e.n >= 16 => ~AllEq(e.runs[k], e.fills[k])              \* something was written
              /\ Stuck(e.runs, e.fills, e.n) = {}                                                     \* every one of the n bytes is written
              /\ e.n >= 16 => e.runs[1] # e.runs[2]                                                   \* and not with a constant
SeqOK(e) == /\ Len(e.a) > 0 /\ AllOf(e.a, IsLimb)
            /\ e.a = e.b /\ e.a = e.c         \* same seed (or no automatic seed): the same sequence
ShufOK(e) == IsPermutation(e.in, e.out)
CoinOK(e) == /\ e.k \in 0..16 /\ e.n = 1024 /\ e.c \in 0..e.n
             /\ Within6Sigma(e.c, e.n, e.k, 16)           \* k = 0: never, k = 16: always
\* 4096 draws from a normal distribution: P(|x - m| < s) = 0.6827, P(|x - m| < 2 s) = 0.9545, P(x > m) = 1/2; windows of 6
\* standard deviations of the binomial count (29.8, 13.3, 32)
NormOK(e) == /\ e.n = 4096 /\ e.fin = e.n /\ e.s >= 1
             /\ e.in1 \in 2617..2975
             /\ e.in2 \in 3829..3990
             /\ Within6Sigma(e.pos, e.n, 1, 2)
             /\ e.in1 <= e.in2

TInit == l = 1 /\ seen = {}
TStep == /\ l <= Len(T)
         /\ l' = l + 1
         /\ LET e == T[l] IN
            /\ \/ e.e = "reset"
               \/ e.e = "gen" /\ GenOK(e)
               \/ e.e = "int" /\ IntOK(e)
               \/ e.e = "hist" /\ HistOK(e)
               \/ e.e = "dbl" /\ DblOK(e)
               \/ e.e = "bytes" /\ BytesOK(e)
               \/ e.e = "seq" /\ SeqOK(e)
               \/ e.e = "shuf" /\ ShufOK(e)
               \/ e.e = "coin" /\ CoinOK(e)
               \/ e.e = "norm" /\ NormOK(e)
            /\ seen' = IF e.e = "reset" THEN {} ELSE IF e.e = "gen" THEN seen \cup {e.u} ELSE seen
TraceSpec == TInit /\ [][TStep]_<<l, seen>>
TraceAccepted == TLCGet("stats").diameter - 1 = Len(T)
=============================================================================
