SPECIFICATION Spec
CONSTANTS
 NP = 2
 Per = 2
INVARIANTS CountMatches NoUseAfterFree AliveWhileHandles DestroyedOnce MutexOwnerInside NeverMoreTakenThanPut AtEnd PerConsumerFifo
PROPERTIES Terminates
CHECK_DEADLOCK TRUE
