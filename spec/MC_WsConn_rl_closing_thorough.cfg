SPECIFICATION Spec
CONSTANTS
 KindC = "raw"
 KindS = "lib"
 MaxOps = 7
 MaxMsgs = 1
 MaxCtl = 0
 LibLens = {126}
 RawLens = {126}
 Shapes = {"whole","begin"}
 CloseFrames = {"none","code","reason"}
 CtlPls = {}
 Observers = {"wait", "closed", "hasinput"}
VIEW View
ACTION_CONSTRAINT Emit
INVARIANTS TypeOK PrefixDelivery NoLoss PongsAnswerPings
PROPERTIES Monotone QuietAfterClose
CHECK_DEADLOCK FALSE
