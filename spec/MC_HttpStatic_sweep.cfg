SPECIFICATION Spec
CONSTANTS
 ReqSet <- SweepReqs
 ImsFiles <- SweepIms
 Deltas <- SweepDeltas
 Mutable = {}
 Slack = 0
 Dts = {1}
 MaxOps = 1
VIEW View
ACTION_CONSTRAINT Emit
INVARIANTS TypeOK CacheCoherent NotModifiedSound ContentOnlyFromFiles RedirectOnlyDirs
CHECK_DEADLOCK FALSE
