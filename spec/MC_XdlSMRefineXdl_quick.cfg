SPECIFICATION Spec
CONSTANTS
 MaxDepth = 2
 MaxItems = 2
 MaxLen = 10
 MaxVar = 1
 QKeySlashIsComment = FALSE
INVARIANTS TypeOK JsonSubset SMAgree SMPrefix SMNoUnderflow SMChunks
CHECK_DEADLOCK FALSE
