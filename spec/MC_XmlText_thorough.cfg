SPECIFICATION Spec
CONSTANTS
 Names <- NamesLarge
 AttrNames <- AttrNamesSmall
 Values <- ValuesLarge
 Texts <- TextsLarge
 Variants <- VariantsLarge
 Comments <- CommentsLarge
 PIs <- PIsLarge
 Doctypes <- DoctypesLarge
 Decls <- DeclsLarge
 TopWs <- TopWsLarge
 MaxDepth = 2
 MaxKids = 2
 MaxAttrs = 2
 MaxTok = 5
 MaxBadTail = 1
 GuardRoot = TRUE
ACTION_CONSTRAINT Emit
INVARIANTS TypeOK GenRecAgree PrefixNotDoc BadRejected EncodeRoundTrip SMTotal SMRefines SMRoundTrip
CHECK_DEADLOCK FALSE
