---------------------------- MODULE Trace_XmlDom ----------------------------
(* V binding for the DOM part of C07: validates edit scripts recorded from the real asl::Xml (harness/c07_dom_record.cpp)
   against the actions of XmlDom.  One ndjson line per public call (operation, arguments, what the call reported:
   "found", the handles that designate the same node as the result "eq", the number of children "len"), plus
     check   the complete projection of the implementation: every node the handles reach (numbered in the order of
             discovery; kind, tag / text, attributes, children, parent()) and for every handle the results of all queries.
             Accepted iff the implementation's node graph is isomorphic to the specification's heap (same sharing), node
             contents agree, parent() is the inverse of children() (null or a container for ambiguous nodes), and every
             query returned the value of the corresponding operator of XmlDom.
     enc     the text Xml::encode produced for a handle: accepted iff the independent recognizer of XmlText reads it as a
             document denoting the edited tree up to Normalize.
   parent() of an ambiguous node is not determined by the specification: ParentAmb lets TLC follow every admissible
   result (the null object or any element containing the node); "eq" and the next check select the branch taken.  *)
EXTENDS XmlDom, IOUtils

T == ndJsonDeserialize(IOEnv.TRACE)
VARIABLE l
tvars == <<vars, l>>

Has(e, f) == f \in DOMAIN e
SetOf(s) == {s[i] : i \in 1..Len(s)}

ParentAmb(h, g) == /\ LiveH(h) /\ AnyH(g) /\ hv[h] \in amb
                   /\ \E m \in Containers(nd, hv[h]) \cup {0} :
                         Commit(Bind(g, m), nd, amb, {}, [op |-> "parent", h |-> h, g |-> g], {})

Post(e) == /\ Has(e, "eq") => (IF e.eq = <<>> THEN hv'[e.g] = 0
                               ELSE hv'[e.g] # 0 /\ {x \in H : hv'[x] = hv'[e.g]} = SetOf(e.eq))
           /\ Has(e, "len") => (hv'[e.h] # 0 /\ Len(nd'[hv'[e.h]].c) = e.len)
           /\ Has(e, "found") => hist'[1].found = e.found

(* check events *)
RECURSIVE PairsOf(_, _, _)
PairsOf(rows, m, r) ==
    {<<m, r>>} \cup (IF nd[m].k # "f" /\ Len(nd[m].c) = Len(rows[r].c)
                     THEN UNION {PairsOf(rows, nd[m].c[i], rows[r].c[i]) : i \in 1..Len(nd[m].c)} ELSE {})
M2R(P, m) == CHOOSE r \in {p[2] : p \in P} : <<m, r>> \in P
MapIds(P, s) == [i \in 1..Len(s) |-> M2R(P, s[i])]
BagEq(s1, s2) == /\ Len(s1) = Len(s2)
                 /\ \A v \in SetOf(s1) \cup SetOf(s2) :
                       Cardinality({i \in 1..Len(s1) : s1[i] = v}) = Cardinality({i \in 1..Len(s2) : s2[i] = v})
RowOK(P, m, row) ==
    /\ nd[m].k = row.k /\ nd[m].n = row.n /\ Len(nd[m].c) = Len(row.c)
    /\ AttrSeq(nd[m].a) = row.a
    /\ IF row.p = 9997 THEN TRUE                                            \* parent() not observed (open finding avoided)
       ELSE IF m \in amb THEN (row.p = 0 \/ \E c \in Containers(nd, m) : <<c, row.p>> \in P)
       ELSE IF Containers(nd, m) = {} THEN row.p = 0
       ELSE <<ParentOf(nd, amb, m), row.p>> \in P
QueryOK(P, m, q) ==
    /\ TextOf(nd, m).def => q.txt = TextOf(nd, m).v
    /\ IntOf(nd, m, 77).def => q.iv = IntOf(nd, m, 77).v
    /\ nd[m].k = "e" =>
        /\ \A j \in 1..Len(q.tags) :
              LET tg == q.tags[j]
                  ks == MapIds(P, ChildrenByTag(nd, m, tg.t))
                  al == MapIds(P, FindAll(nd, m, tg.t))
              IN /\ tg.cnt = Len(ks) /\ (Has(tg, "kids") => tg.kids = ks) /\ tg.sel = ks /\ tg.miss = 1
                 /\ BagEq(tg.all, al)
                 /\ tg.one = (IF al = <<>> THEN 0 ELSE al[1])
        /\ \A j \in 1..Len(q.at) :
              LET ai == AIdx(q.at[j].an) IN
              /\ ai # 0
              /\ q.at[j].has = (IF nd[m].a[ai] # Absent THEN 1 ELSE 0)
              /\ q.at[j].v = (IF nd[m].a[ai] # Absent THEN nd[m].a[ai] ELSE <<>>)
        /\ BagEq(q.trav, MapIds(P, Pre(nd, m)))
CheckOK(e) ==
    /\ {e.hs[i].h : i \in 1..Len(e.hs)} = {h \in H : hv[h] # 0}
    /\ LET P == UNION {PairsOf(e.nodes, hv[e.hs[i].h], e.hs[i].id) : i \in 1..Len(e.hs)} IN
       /\ \A p \in P : p[2] \in 1..Len(e.nodes) /\ nd[p[1]].k # "f"
       /\ \A p, q \in P : (p[1] = q[1]) = (p[2] = q[2])                       \* same identities: what is shared is shared
       /\ {p[2] : p \in P} = 1..Len(e.nodes)
       /\ {p[1] : p \in P} = LiveN
       /\ \A p \in P : RowOK(P, p[1], e.nodes[p[2]])
       /\ \A i \in 1..Len(e.hs) : QueryOK(P, hv[e.hs[i].h], e.hs[i].q)
EncOK(e) ==
    /\ LiveH(e.h)
    /\ LET u == Unfold(nd, hv[e.h])
           r == X!Recognize(e.text)
       IN /\ Encodable(u) /\ (e.fmt = 1 => X!SoleText(u))
          /\ r.ok /\ X!Normalize(r.v) = X!Normalize(u)

TInit == Init /\ l = 1
TStep ==
  /\ l <= Len(T)
  /\ l' = l + 1
  /\ LET e == T[l] IN
     \/ /\ e.op = "reset"
        /\ hv' = [h \in H |-> 0] /\ nd' = [n \in N |-> Free] /\ amb' = {} /\ hist' = <<>> /\ hz' = {}
     \/ /\ e.op = "check" /\ CheckOK(e) /\ UNCHANGED vars
     \/ /\ e.op = "enc" /\ EncOK(e) /\ UNCHANGED vars
     \/ /\ e.op = "newElem" /\ NewElem(e.g, e.t) /\ Post(e)
     \/ /\ e.op = "newText" /\ NewText(e.g, e.x) /\ Post(e)
     \/ /\ e.op = "newVal" /\ NewVal(e.g, e.t, e.x) /\ Post(e)
     \/ /\ e.op = "newAttr" /\ NewAttr(e.g, e.t, AIdx(e.an), e.v) /\ Post(e)
     \/ /\ e.op = "newKids" /\ NewKids(e.g, e.t, e.h, e.h2) /\ Post(e)
     \/ /\ e.op = "copy" /\ CopyHandle(e.h, e.g) /\ Post(e)
     \/ /\ e.op = "assign" /\ AssignHandle(e.h, e.g) /\ Post(e)
     \/ /\ e.op = "drop" /\ DropHandle(e.h)
     \/ /\ e.op = "child" /\ Child(e.h, e.i, e.g) /\ Post(e)
     \/ /\ e.op = "parent" /\ Parent(e.h, e.g) /\ Post(e)
     \/ /\ e.op = "parent" /\ ParentAmb(e.h, e.g) /\ Post(e)
     \/ /\ e.op = "get" /\ GetChild(e.h, e.t, e.i, e.g) /\ Post(e)
     \/ /\ e.op = "findOne" /\ FindOne(e.h, e.t, e.g) /\ Post(e)
     \/ /\ e.op = "append" /\ AppendChild(e.h, e.g) /\ Post(e)
     \/ /\ e.op = "insert" /\ InsertChild(e.h, e.i, e.g) /\ Post(e)
     \/ /\ e.op = "appendText" /\ AppendText(e.h, e.x) /\ Post(e)
     \/ /\ e.op = "removeAt" /\ RemoveAt(e.h, e.i) /\ Post(e)
     \/ /\ e.op = "removeNode" /\ RemoveNode(e.h, e.g) /\ Post(e)
     \/ /\ e.op = "clear" /\ ClearKids(e.h) /\ Post(e)
     \/ /\ e.op = "putText" /\ PutText(e.h, e.x) /\ Post(e)
     \/ /\ e.op = "putNamed" /\ PutNamed(e.h, e.t, e.x) /\ Post(e)
     \/ /\ e.op = "setAttr" /\ SetAttr(e.h, AIdx(e.an), e.v) /\ Post(e)
     \/ /\ e.op = "removeAttr" /\ RemoveAttr(e.h, AIdx(e.an)) /\ Post(e)
     \/ /\ e.op = "setTag" /\ SetTag(e.h, e.t) /\ Post(e)
     \/ /\ e.op = "clone" /\ CloneTree(e.h, e.g) /\ Post(e)
     \/ /\ e.op = "reparse" /\ Reparse(e.h, e.g, e.fmt) /\ Post(e)

TraceSpec == TInit /\ [][TStep]_tvars
TraceAccepted == TLCGet("stats").diameter - 1 = Len(T)
===============================================================================
