----------------------------- MODULE LinAlgGauss ------------------------------
(* C20 - implementation-shaped model of asl::solve_ (include/asl/Matrix.h): Gaussian elimination that never moves rows
   but keeps a permutation vector, followed by back substitution, for one right-hand side column.  The code takes the
   row with the largest |entry| as pivot; the property says "whichever rows are chosen as pivots", so the pivot is
   *any* row with a non-zero entry here (for the harness scalar type Z_p the code's choice depends on an arbitrary
   ordering of the field, see harness/c20_zp.h).

   Checked by TLC for every nonsingular N x N matrix over Z_P, the right-hand sides selected by NRhs, and every pivot
   choice:
     Solves            at the end  A0 x = b0
     AgreesAdjugate    ... and x = adj(A0) b0 / det(A0)   (formulation 1 of LinAlg.tla)
     FormulationsAgree adjugate solution = SolveGauss(A0, b0) (formulation 2), Det = DetGauss, A0 adj(A0)/det = I
     RowEquivalent     every intermediate system has the same solution
     PermOK, PivotExists (elimination cannot get stuck on a nonsingular matrix), Triangular.                     *)
EXTENDS LinAlg, FiniteSets, TLC

CONSTANTS N,        \* size of the system
          NRhs      \* 0: every right-hand side; k > 0: the first k of <<all-ones, e1, e2, ...>>

VARIABLES A0, b0, A, b, perm, k, x, pc,
          xt        \* the solution by formulation 1 (adjugate), computed once per system by the Start step
vars == <<A0, b0, A, b, perm, k, x, pc, xt>>

Ix == 1..N
Vec0 == [i \in Ix |-> 0]
RhsList(j) == IF j = 1 THEN [i \in Ix |-> 1 % P] ELSE [i \in Ix |-> IF i = j - 1 THEN 1 % P ELSE 0]

Init == /\ A0 \in [Ix -> [Ix -> Fp]]
        /\ Det(A0) # 0
        /\ b0 \in (IF NRhs = 0 THEN [Ix -> Fp] ELSE {RhsList(j) : j \in 1..NRhs})
        /\ A = A0 /\ b = b0
        /\ perm = [i \in Ix |-> i]
        /\ k = 1
        /\ x = Vec0 /\ xt = Vec0
        /\ pc = "start"

Start == /\ pc = "start"
         /\ xt' = MatVec(AdjInverse(A0), b0)
         /\ pc' = IF N = 1 THEN "back" ELSE "pivot"
         /\ UNCHANGED <<A0, b0, A, b, perm, k, x>>

\* one iteration of the k loop with pivot position i (code: swap(_[k], _[ipivot]); eliminate the rows _[k+1..])
Pivot(i) ==
    /\ pc = "pivot"
    /\ i \in k..N
    /\ A[perm[i]][k] # 0
    /\ LET p2 == [perm EXCEPT ![k] = perm[i], ![i] = perm[k]]
           kk == p2[k]
           below == {p2[q] : q \in (k + 1)..N}
           f(ii) == NegP(DivP(A[ii][k], A[kk][k]))
       IN /\ perm' = p2
          /\ A' = [r \in Ix |-> IF r \in below
                                THEN [j \in Ix |-> IF j >= k THEN AddP(A[r][j], MulP(A[kk][j], f(r))) ELSE A[r][j]]
                                ELSE A[r]]
          /\ b' = [r \in Ix |-> IF r \in below THEN AddP(b[r], MulP(b[kk], f(r))) ELSE b[r]]
    /\ k' = k + 1
    /\ pc' = IF k + 1 = N THEN "back" ELSE "pivot"
    /\ UNCHANGED <<A0, b0, x, xt>>

\* back substitution: x(k) = (b(_[k]) - sum_{i>k} A(_[k], i) x(i)) / A(_[k], k), k = N..1
RECURSIVE BackFrom(_, _)
BackFrom(q, xs) ==
    IF q = 0 THEN xs
    ELSE LET kk == perm[q]
             RECURSIVE Sum(_)
             Sum(i) == IF i > N THEN 0 ELSE AddP(MulP(A[kk][i], xs[i]), Sum(i + 1))
         IN BackFrom(q - 1, [xs EXCEPT ![q] = DivP(SubP(b[kk], Sum(q + 1)), A[kk][q])])
Back == /\ pc = "back"
        /\ A[perm[N]][N] # 0
        /\ x' = BackFrom(N, Vec0)
        /\ pc' = "done"
        /\ UNCHANGED <<A0, b0, A, b, perm, k, xt>>

Next == Start \/ (\E i \in Ix : Pivot(i)) \/ Back
Spec == Init /\ [][Next]_vars

-------------------------------------------------------------------------------
Fresh == pc \in {"pivot", "back"} /\ k = 1            \* the state right after Start: once per system
Solves == pc = "done" => MatVec(A0, x) = b0
AgreesAdjugate == pc = "done" => x = xt
\* the two formulations of LinAlg.tla agree on the system (solution and determinant)
FormulationsAgree == Fresh => /\ xt = Col(SolveGauss(A0, [i \in Ix |-> <<b0[i]>>]), 1)
                              /\ DetGauss(A0) = Det(A0)
                              /\ MatMul(A0, AdjInverse(A0)) = Ident(N)
RowEquivalent == pc # "start" => MatVec(A, xt) = b
PermOK == {perm[i] : i \in Ix} = Ix
PivotExists == /\ pc = "pivot" => \E i \in k..N : A[perm[i]][k] # 0
               /\ pc = "back" => A[perm[N]][N] # 0
\* below the diagonal (in permuted order) the processed columns are zero
Triangular == \A c \in 1..(k - 1) : \A q \in (c + 1)..N : A[perm[q]][c] = 0
===============================================================================
