------------------------------ MODULE LinAlgRot -------------------------------
(* C20 - exact rotations: rotation matrices with rational entries, written as integer numerator matrices over a common
   denominator, together with the Euler-angle triples / unit quaternions they come from.  TLC has no reals; every
   rotation used here is exactly representable: angles whose cosine and sine are rational (multiples of 90 degrees -
   all gimbal-lock and 180-degree configurations - and the Pythagorean angles 3-4-5, 5-12-13, 8-15-17 in all quadrants)
   and rational unit quaternions (a, b, c, d)/n with a^2 + b^2 + c^2 + d^2 = n^2.

   kind "euler": an axis order a0 a1 a2 (the twelve orders with a0 # a1 # a2), moving or fixed frame, three exact
                 angles, and the composed rotation  R_a0(r0) R_a1(r1) R_a2(r2)  (moving axes) resp. the same rotations
                 applied about the fixed axes in the order a0, a1, a2, i.e. R_a2(r2) R_a1(r1) R_a0(r0);
   kind "quat" : a rational unit quaternion, its rotation matrix (defined by conjugation v -> q v conj(q)), and the
                 quaternion the matrix->quaternion conversion must return up to sign, with the branch (largest of
                 trace / diagonal entries, evaluated exactly) that the conversion design takes.

   kind "axis" : a rotation axis with integer components and rational length (it need not be a unit vector) and an
                 exact angle; the rotation matrix by Rodrigues' formula  c I + (1 - c) u u^T + s [u]x,  u = axis / length.

   kind "rel"  : two rational unit quaternions q1, q2 and their relative rotation q2 conj(q1) (= R2 R1^T), where q2 is q1, -q1, or
                 p q1 for a fixed partner p: the exact result is the identity resp. the rotation of p, while the floating-point
                 product of two almost equal orientations is the identity only up to rounding (w = 1 +- ulp, trace = 3 +- ulp) -
                 the conversions to angle / axis-angle and back must still give that rotation.

   Invariants on every published case: the matrix is a proper rotation (M M^T = den^2 I, row1 x row2 = den row3, i.e. det = +1); the
   conjugation definition and the closed-form quaternion matrix agree; the recovered quaternion gives the same matrix;
   a fixed-frame composition equals the moving-frame composition with order and angles reversed; an axis-angle rotation
   fixes its axis, has trace 1 + 2 cos(angle), and about a coordinate axis it is the elementary rotation.

   R: harness/c20_replay evaluates rotateE, eulerAngles, Quaternion::matrix, Matrix4::rotation, axisAngle, rotate in
   double and float and compares rotations with these exact values (tolerance 1e-9 / 1e-4).                       *)
EXTENDS Integers, Sequences, TLC, Json

CONSTANTS NAngles,    \* how many entries of Angles are used for the Euler cases
          K           \* quaternion numerators range over -K..K

VARIABLES c, phase
vars == <<c, phase>>

-------------------------------------------------------------------------------
(* 3 x 3 integer matrices *)
I3 == 1..3
MulZ(A, B) == [i \in I3 |-> [j \in I3 |-> A[i][1] * B[1][j] + A[i][2] * B[2][j] + A[i][3] * B[3][j]]]
TransZ(A) == [i \in I3 |-> [j \in I3 |-> A[j][i]]]
ScaleI(k) == [i \in I3 |-> [j \in I3 |-> IF i = j THEN k ELSE 0]]
Cross(u, v) == <<u[2] * v[3] - u[3] * v[2], u[3] * v[1] - u[1] * v[3], u[1] * v[2] - u[2] * v[1]>>
FlatZ(A) == <<A[1][1], A[1][2], A[1][3], A[2][1], A[2][2], A[2][3], A[3][1], A[3][2], A[3][3]>>

(* exact angles <<cos, sin, den>>, cos^2 + sin^2 = den^2; the first four are the multiples of 90 degrees *)
Angles == << <<1, 0, 1>>, <<0, 1, 1>>, <<-1, 0, 1>>, <<0, -1, 1>>,
             <<3, 4, 5>>, <<-4, 3, 5>>, <<12, -5, 13>>, <<-8, -15, 17>>,
             <<4, -3, 5>>, <<-3, -4, 5>>, <<5, 12, 13>>, <<-12, 5, 13>>, <<15, 8, 17>>, <<-15, -8, 17>>, <<-5, -12, 13>>, <<8, -15, 17>> >>
ASSUME \A i \in 1..Len(Angles) : Angles[i][1] * Angles[i][1] + Angles[i][2] * Angles[i][2] = Angles[i][3] * Angles[i][3]

\* elementary right-handed rotation about axis ax (0 = X, 1 = Y, 2 = Z), numerators over the denominator a[3]
Elem(ax, a) ==
    LET cs == a[1] sn == a[2] d == a[3] IN
    IF ax = 0 THEN << <<d, 0, 0>>, <<0, cs, -sn>>, <<0, sn, cs>> >>
    ELSE IF ax = 1 THEN << <<cs, 0, sn>>, <<0, d, 0>>, <<-sn, 0, cs>> >>
    ELSE << <<cs, -sn, 0>>, <<sn, cs, 0>>, <<0, 0, d>> >>
\* rotating the basis vector of another axis by 90 degrees about ax gives the third one (right-handedness)
ASSUME MulZ(Elem(2, <<0, 1, 1>>), << <<1, 0, 0>>, <<0, 0, 0>>, <<0, 0, 0>> >>)[2][1] = 1      \* Z: x -> y
ASSUME MulZ(Elem(0, <<0, 1, 1>>), << <<0, 0, 0>>, <<1, 0, 0>>, <<0, 0, 0>> >>)[3][1] = 1      \* X: y -> z
ASSUME MulZ(Elem(1, <<0, 1, 1>>), << <<0, 0, 0>>, <<0, 0, 0>>, <<1, 0, 0>> >>)[1][1] = 1      \* Y: z -> x

Orders == {o \in (0..2) \X (0..2) \X (0..2) : o[1] # o[2] /\ o[2] # o[3]}
\* moving axes: each rotation is about the already rotated axis = right multiplication in the order given;
\* fixed axes: each rotation is about the original axis = left multiplication in the order given
Compose(o, an, fixed) ==
    LET R1 == Elem(o[1], an[1]) R2 == Elem(o[2], an[2]) R3 == Elem(o[3], an[3]) IN
    IF fixed THEN MulZ(R3, MulZ(R2, R1)) ELSE MulZ(MulZ(R1, R2), R3)

(* quaternions <<w, x, y, z>> with integer components (to be divided by n) *)
QMul(p, q) == << p[1]*q[1] - p[2]*q[2] - p[3]*q[3] - p[4]*q[4],
                 p[1]*q[2] + p[2]*q[1] + p[3]*q[4] - p[4]*q[3],
                 p[1]*q[3] - p[2]*q[4] + p[3]*q[1] + p[4]*q[2],
                 p[1]*q[4] + p[2]*q[3] - p[3]*q[2] + p[4]*q[1] >>
QConj(q) == <<q[1], -q[2], -q[3], -q[4]>>
Norm2(q) == q[1]*q[1] + q[2]*q[2] + q[3]*q[3] + q[4]*q[4]
\* rotation by conjugation: column j is the vector part of q e_j conj(q)   (numerators over n^2)
Basis(j) == <<0, IF j = 1 THEN 1 ELSE 0, IF j = 2 THEN 1 ELSE 0, IF j = 3 THEN 1 ELSE 0>>
RotByConj(q) == [i \in I3 |-> [j \in I3 |-> QMul(QMul(q, Basis(j)), QConj(q))[i + 1]]]
\* closed form
RotClosed(q) ==
    LET w == q[1] x == q[2] y == q[3] z == q[4] n2 == Norm2(q) IN
    << <<n2 - 2*(y*y + z*z), 2*(x*y - w*z), 2*(x*z + w*y)>>,
       <<2*(x*y + w*z), n2 - 2*(x*x + z*z), 2*(y*z - w*x)>>,
       <<2*(x*z - w*y), 2*(y*z + w*x), n2 - 2*(x*x + y*y)>> >>
IsSquare(s) == \E n \in 1..(2 * K) : n * n = s
Root(s) == CHOOSE n \in 1..(2 * K) : n * n = s
UnitQuats == {q \in (-K..K) \X (-K..K) \X (-K..K) \X (-K..K) : Norm2(q) > 0 /\ IsSquare(Norm2(q))}
Sgn(v) == IF v < 0 THEN -1 ELSE 1
\* the design of the matrix -> quaternion conversion: pivot on the largest of trace, m11, m22, m00 (exact comparison);
\* the result is q with the sign that makes the pivot component positive
Branch(M) ==
    LET t == M[1][1] + M[2][2] + M[3][3] IN
    IF t >= 0 THEN 0 ELSE IF M[2][2] > M[1][1] /\ M[2][2] >= M[3][3] THEN 1 ELSE IF M[3][3] > M[1][1] THEN 2 ELSE 3
Tie(M) == LET t == M[1][1] + M[2][2] + M[3][3] IN t = 0 \/ (t < 0 /\ (M[2][2] = M[1][1] \/ M[2][2] = M[3][3] \/ M[3][3] = M[1][1]))
Recovered(q) ==
    LET br == Branch(RotClosed(q))
        s == IF br = 0 THEN Sgn(q[1]) ELSE IF br = 1 THEN Sgn(q[3]) ELSE IF br = 2 THEN Sgn(q[4]) ELSE Sgn(q[2])
    IN <<s * q[1], s * q[2], s * q[3], s * q[4]>>

(* axis-angle: axes <<x, y, z, L>> with x^2 + y^2 + z^2 = L^2; numerators over the denominator d L^2 *)
Axes == << <<1, 0, 0, 1>>, <<0, 1, 0, 1>>, <<0, 0, 1, 1>>, <<0, 0, -2, 2>>, <<1, 2, 2, 3>>, <<2, -1, 2, 3>>, <<-2, -2, 1, 3>>,
           <<0, 3, 4, 5>>, <<3, 0, -4, 5>>, <<2, 3, 6, 7>>, <<-6, 2, 3, 7>>, <<4, 4, 7, 9>>, <<2, 4, 4, 6>>, <<-1, -4, 8, 9>> >>
ASSUME \A i \in 1..Len(Axes) : Axes[i][1] * Axes[i][1] + Axes[i][2] * Axes[i][2] + Axes[i][3] * Axes[i][3] = Axes[i][4] * Axes[i][4]
Rodrigues(ax, a) ==
    LET x == ax[1] y == ax[2] z == ax[3] L == ax[4] cs == a[1] sn == a[2] d == a[3]
        v == <<x, y, z>>
        K3 == << <<0, -z, y>>, <<z, 0, -x>>, <<-y, x, 0>> >>          \* the cross-product matrix [axis]x
    IN [i \in I3 |-> [j \in I3 |-> (IF i = j THEN cs * L * L ELSE 0) + (d - cs) * v[i] * v[j] + sn * L * K3[i][j]]]
ASSUME \A k \in 1..Len(Angles) : /\ Rodrigues(<<1, 0, 0, 1>>, Angles[k]) = Elem(0, Angles[k])
                                  /\ Rodrigues(<<0, 1, 0, 1>>, Angles[k]) = Elem(1, Angles[k])
                                  /\ Rodrigues(<<0, 0, 1, 1>>, Angles[k]) = Elem(2, Angles[k])

(* relative rotations: partner 1 = the same orientation, 2 = its negated quaternion, from 3 on a fixed rotation applied on top *)
Partners == << <<1, 0, 0, 0>>, <<-1, 0, 0, 0>>, <<0, 1, 0, 0>>, <<3, 4, 0, 0>>, <<1, 1, 1, 1>>, <<12, 0, -5, 0>> >>
ASSUME \A i \in 1..Len(Partners) : \E n \in 1..13 : n * n = Norm2(Partners[i])
Second(q, i) == QMul(Partners[i], q)
Rel(q, i) == QMul(Second(q, i), QConj(q))

-------------------------------------------------------------------------------
AngleIx == 1..NAngles
Init == /\ phase = "gen"
        /\ \/ c \in [k : {"euler"}, o : Orders, a : AngleIx \X AngleIx \X AngleIx, fixed : BOOLEAN]
           \/ c \in [k : {"quat"}, q : UnitQuats]
           \/ c \in [k : {"axis"}, x : 1..Len(Axes), a : 1..Len(Angles)]
           \/ c \in [k : {"rel"}, q : UnitQuats, p : 1..Len(Partners)]

Case(p) ==
    IF p.k = "euler" THEN
        LET an == <<Angles[p.a[1]], Angles[p.a[2]], Angles[p.a[3]]>> IN
        [k |-> "euler", ord |-> p.o, fixed |-> IF p.fixed THEN 1 ELSE 0, ang |-> an,
         m |-> FlatZ(Compose(p.o, an, p.fixed)), den |-> an[1][3] * an[2][3] * an[3][3]]
    ELSE IF p.k = "axis" THEN
        LET ax == Axes[p.x] an == Angles[p.a] IN
        [k |-> "axis", axis |-> ax, ang |-> an, m |-> FlatZ(Rodrigues(ax, an)), den |-> an[3] * ax[4] * ax[4]]
    ELSE IF p.k = "rel" THEN
        LET q2 == Second(p.q, p.p) r == Rel(p.q, p.p) IN
        [k |-> "rel", q1 |-> p.q, n1 |-> Root(Norm2(p.q)), q2 |-> q2, n2den |-> Norm2(q2), p |-> p.p,
         m |-> FlatZ(RotClosed(Partners[p.p])), den |-> Norm2(Partners[p.p]), ident |-> IF p.p <= 2 THEN 1 ELSE 0]
    ELSE
        LET M == RotByConj(p.q) IN
        [k |-> "quat", q |-> p.q, n |-> Root(Norm2(p.q)), m |-> FlatZ(M), den |-> Norm2(p.q),
         br |-> Branch(M), tie |-> IF Tie(M) THEN 1 ELSE 0, qm |-> Recovered(p.q)]
Gen == phase = "gen" /\ phase' = "done" /\ c' = Case(c)
Spec == Init /\ [][Gen]_vars

-------------------------------------------------------------------------------
Unflat(f) == << <<f[1], f[2], f[3]>>, <<f[4], f[5], f[6]>>, <<f[7], f[8], f[9]>> >>
ProperRotation == phase = "done" =>
    LET M == Unflat(c.m) IN
    /\ MulZ(M, TransZ(M)) = ScaleI(c.den * c.den)                        \* orthogonal ...
    /\ Cross(M[1], M[2]) = <<c.den * M[3][1], c.den * M[3][2], c.den * M[3][3]>>   \* ... and right-handed (det = +1)
QuatTwoWays == (phase = "done" /\ c.k = "quat") =>
    /\ Unflat(c.m) = RotClosed(c.q)
    /\ RotClosed(c.qm) = RotClosed(c.q)
    /\ c.qm \in {c.q, <<-c.q[1], -c.q[2], -c.q[3], -c.q[4]>>}
    /\ c.n * c.n = c.den
\* rotating about fixed axes in the order a0 a1 a2 = rotating about moving axes in the order a2 a1 a0
FixedIsReversedMoving == (phase = "done" /\ c.k = "euler" /\ c.fixed = 1) =>
    Unflat(c.m) = Compose(<<c.ord[3], c.ord[2], c.ord[1]>>, <<c.ang[3], c.ang[2], c.ang[1]>>, FALSE)
AxisAngle == (phase = "done" /\ c.k = "axis") =>
    LET M == Unflat(c.m) v == <<c.axis[1], c.axis[2], c.axis[3]>> L == c.axis[4] IN
    /\ \A i \in I3 : M[i][1] * v[1] + M[i][2] * v[2] + M[i][3] * v[3] = c.den * v[i]         \* the axis is fixed
    /\ M[1][1] + M[2][2] + M[3][3] = (c.ang[3] + 2 * c.ang[1]) * L * L                        \* trace = 1 + 2 cos
\* the relative rotation of two orientations: as a quaternion product and as R2 R1^T it is the same rotation, it is the partner's
\* rotation, and for partner 1 and 2 (q2 = +-q1) it is exactly the identity
RelOK == (phase = "done" /\ c.k = "rel") =>
    LET r == QMul(c.q2, QConj(c.q1)) IN
    /\ Norm2(r) = Norm2(c.q1) * c.n2den /\ c.den = Norm2(Partners[c.p])
    /\ RotClosed(r) = MulZ(RotClosed(c.q2), TransZ(RotClosed(c.q1)))                       \* quaternion product = R2 R1^T
    /\ \A i, j \in I3 : RotClosed(r)[i][j] * c.den = Unflat(c.m)[i][j] * Norm2(r)          \* ... = the partner's rotation (published reduced)
    /\ (c.ident = 1 => Unflat(c.m) = ScaleI(c.den))
\* every branch of the conversion design is exercised by the quaternion set (checked on the parameters, not per state)
ASSUME K < 2 \/ {Branch(RotClosed(q)) : q \in UnitQuats} = 0..3

Emit == PrintT(ToJson(c'))
===============================================================================
