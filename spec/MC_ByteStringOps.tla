--------------------------- MODULE MC_ByteStringOps ---------------------------
(* C03, pure operations: every string over Alpha up to MaxLen, and for the short ones their cyclic extensions to the
   storage-boundary lengths VarLens (15/16 inline limit, 19/20 and 23/24 first heap sizes, 32/33 first doubling),
   against every non-empty pattern / separator over PatAlpha up to length 2.

   Invariants: the property's identities on the specification itself, and the pairs of independent definitions:
     Join(Split(s, sep), sep) = s                      Replace(s, a, b) = Join(Split(s, a), b)
     IndexOf = IndexOfMin (scan vs. least match)       Trimmed = Strip, SplitWs = SplitWs2
     number of parts = 1 + non-overlapping matches     Compare is antisymmetric and agrees with equality
   Emit prints one table row per string with the results of every operation for harness/c03_replay.cpp.          *)
EXTENDS ByteStringOps, TLC, Json, FiniteSets
CONSTANTS Alpha, PatAlpha, MaxLen, VarMax, VarLens, Repls
VARIABLES s, kind
vars == <<s, kind>>
Init == s = <<>> /\ kind = "plain"
Grow == kind = "plain" /\ Len(s) < MaxLen /\ kind' = "plain" /\ \E b \in Alpha : s' = Append(s, b)
Vary == kind = "plain" /\ Len(s) >= 1 /\ Len(s) <= VarMax /\ kind' = "var" /\ \E n \in VarLens : s' = Cyc(s, n)
Next == Grow \/ Vary
Spec == Init /\ [][Next]_vars

\* replacement strings (cfg files cannot spell tuples): Repls <- ReplsA / ReplsB
ReplsA == {<<>>, <<120>>, <<97, 97>>, <<44, 98, 44>>}
ReplsB == ReplsA \cup {<<98, 97, 98, 97, 98>>, <<44>>}
Pats == {<<a>> : a \in PatAlpha} \cup {<<a, b>> : a, b \in PatAlpha}
\* a fixed enumeration order of the patterns for the table rows
RECURSIVE SetSeq(_)
SetSeq(S) == IF S = {} THEN <<>> ELSE LET x == CHOOSE x \in S : \A y \in S : Compare(x, y) <= 0 IN <<x>> \o SetSeq(S \ {x})
PatSeq == SetSeq(Pats)

-------------------------------------------------------------------------------
SplitJoin == \A p \in Pats : Join(Split(s, p), p) = s
ReplaceIsSplitJoin == \A p \in Pats : \A b \in Repls : Replace(s, p, b) = Join(Split(s, p), b)
PartsCount == \A p \in Pats : /\ Len(Split(s, p)) = 1 + CountFrom(s, p, 0)
                              /\ \A i \in 1..Len(Split(s, p)) : ~Contains(Split(s, p)[i], p) \/ Len(p) > 1
ScanIsMin == \A p \in Pats : \A i0 \in 0..Len(s) : IndexOf(s, p, i0) = IndexOfMin(s, p, i0)
LastIsMax == \A p \in Pats : LET l == LastIndexOf(s, p) IN
                             /\ (l >= 0) = Contains(s, p)
                             /\ l >= 0 => (MatchAt(s, p, l) /\ IndexOf(s, p, l + 1) < 0)
TrimTwoWays == /\ Trimmed(s) = Strip(s)
               /\ Trimmed(Trimmed(s)) = Trimmed(s)
               /\ (Trimmed(s) # <<>> => ~IsSpace(Trimmed(s)[1]) /\ ~IsSpace(Trimmed(s)[Len(Trimmed(s))]))
WsTwoWays == /\ SplitWs(s) = SplitWs2(s)
             /\ \A i \in 1..Len(SplitWs(s)) : SplitWs(s)[i] # <<>> /\ \A k \in 1..Len(SplitWs(s)[i]) : ~IsSpace(SplitWs(s)[i][k])
CompareOK == /\ Compare(s, s) = 0
             /\ \A p \in Pats : /\ Compare(s, p) = 0 - Compare(p, s)
                                /\ (Compare(s, p) = 0) = (s = p)
                                /\ Compare(s, s \o p) = 0 - 1
SubstrOK == kind = "plain" =>            \* (quadratic: on the enumerated strings only, not on their long extensions)
            \A i \in (0 - Len(s))..(Len(s) + 1) : \A n \in 0..(Len(s) + 1) :
               LET r == Substr(s, i, n) IN
               /\ Len(r) <= n
               /\ (i >= 0 /\ i + n <= Len(s)) => r = Substring(s, i, i + n)
               /\ (i < 0 /\ n >= 0 - i) => r = Substring(s, Len(s) + i, Len(s))

-------------------------------------------------------------------------------
Idx(t) == {0, 1, Len(t) \div 2, Len(t) - 1, Len(t)} \cap 0..Len(t)
\* (sorting helper for pairs of naturals)
RECURSIVE SetSeq2(_)
SetSeq2(S) == IF S = {} THEN <<>> ELSE LET x == CHOOSE x \in S : \A y \in S : x[1] < y[1] \/ (x[1] = y[1] /\ x[2] <= y[2]) IN <<x>> \o SetSeq2(S \ {x})
PairsOf(t) == SetSeq2({<<i, j>> : i \in Idx(t), j \in Idx(t)})
SubRows(t) == LET ps == SelectSeq(PairsOf(t), LAMBDA x : x[1] <= x[2]) IN
              [k \in 1..Len(ps) |-> [i |-> ps[k][1], j |-> ps[k][2], r |-> Substring(t, ps[k][1], ps[k][2]),
                                     q |-> Substr(t, ps[k][1] - Len(t), ps[k][2] - ps[k][1]),      \* negative start
                                     o |-> Substr(t, ps[k][1], ps[k][2] + 3)]]                     \* count past the end
ReplSeq == SetSeq(Repls)
PatRow(t, p) == [p |-> p,
                 from |-> [i \in 1..(Len(t) + 1) |-> IndexOf(t, p, i - 1)],
                 last |-> LastIndexOf(t, p),
                 ic |-> IndexOfChar(t, p[1], 0), lc |-> LastIndexOfChar(t, p[1]),
                 parts |-> Split(t, p),
                 sw |-> StartsWith(t, p), ew |-> EndsWith(t, p), has |-> Contains(t, p),
                 rep |-> [k \in 1..Len(ReplSeq) |-> [b |-> ReplSeq[k], r |-> Replace(t, p, ReplSeq[k])]],
                 rc |-> ReplaceChar(t, p[1], p[Len(p)] + 1),
                 cat |-> t \o p, pre |-> p \o t,
                 cmp |-> Compare(t, p), cmpx |-> Compare(t, t \o p), cmph |-> Compare(t \o <<200>>, t \o p)]
Row(t) == [k |-> "ops", s |-> t,
           pats |-> [k \in 1..Len(PatSeq) |-> PatRow(t, PatSeq[k])],
           trimmed |-> Trimmed(t), ws |-> SplitWs(t),
           tabs |-> Trimmed([i \in 1..Len(t) |-> IF t[i] = 32 THEN (IF i % 2 = 0 THEN 9 ELSE 10) ELSE t[i]]),
           sub |-> SubRows(t)]
Emit == PrintT(ToJson(Row(s')))
===============================================================================
