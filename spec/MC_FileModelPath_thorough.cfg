SPECIFICATION Spec
CONSTANTS
 MaxTok = 5
 MaxTokP2 = 2
 MaxTokQ = 3
 TokSet = {1, 2, 3, 4, 5, 6, 7, 8, 9}
ACTION_CONSTRAINT Emit
INVARIANTS LawsName LawsExt LawsAbs LawsRemoveDD LawsPair
CHECK_DEADLOCK FALSE
