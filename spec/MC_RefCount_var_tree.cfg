SPECIFICATION Spec
CONSTANTS
 Type = "var"
 NT = 2
 NO = 3
 NB = 3
 NS = 4
 MaxOps = 2
 Shape = "tree"
 Ext = {"self", "null"}
VIEW View
ACTION_CONSTRAINT EmitFinal
INVARIANTS NoUseAfterFree AliveWhileHandles DestroyedOnce CountsMatch ReleasedWithLastHandle NoHalfDestroyed SubtreeAlive
CHECK_DEADLOCK FALSE
