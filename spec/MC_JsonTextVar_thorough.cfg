SPECIFICATION VSpec
CONSTANT SweepEvery = 7
ACTION_CONSTRAINT VEmit
INVARIANT RoundTripLaw
CHECK_DEADLOCK FALSE
