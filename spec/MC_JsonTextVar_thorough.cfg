SPECIFICATION VSpec
CONSTANTS
 SweepEvery = 23
 PairFull = TRUE
ACTION_CONSTRAINT VEmit
INVARIANT RoundTripLaw
CHECK_DEADLOCK FALSE
