------------------------------- MODULE UtfCase -------------------------------
(* C08 growth - the library's case mapping: its tables as data, the laws they obey, and toUpperCase / toLowerCase /
   equalsNocase as functions of arbitrary bytes.

   Data: UtfCaseData.tla (generated, see harness/c08_gen_casedata.py) holds
     UpRaw, LoRaw   the library's two tables (src/unicodedata.cpp): for each code point k < CaseN the two bytes the
                    case functions copy to the output (second byte 0 = a one-byte entry);
     UcdUp, UcdLo   the simple case mappings of the Unicode Character Database (an independent source).
   The transcription is an oracle only as far as the laws below constrain it: they are checked by TLC for every
   entry (MC_UtfCase.tla), and "AgreesWithUcd" ties every entry to the Unicode database: an entry is the UCD simple
   mapping if that fits into two bytes of UTF-8 and the pair was known to the table's Unicode version, otherwise the
   code point itself.  The real tables are compared with UpRaw/LoRaw entry by entry through the replayer.

   Functions: the three String methods walk the text with the lax enumerator of UtfLax.tla, so they are defined
   on any bytes (ill-formed sequences decode to *some* code, see the table in UtfLax.tla).                         *)
EXTENDS UtfLax, UtfCaseData

CaseCut == 1415   \* toUpperCase / toLowerCase: codes below this go through the table, others are re-encoded
EqCut == 1415     \* equalsNocase: table entries are compared if both codes are <= this, the codes otherwise

Ent(r) == IF r[2] = 0 THEN <<r[1]>> ELSE r          \* the bytes an entry contributes to the output
UpEnt(c) == Ent(UpRaw[c + 1])
LoEnt(c) == Ent(LoRaw[c + 1])
\* the tables read as code point -> code point (-1 where an entry is not the UTF-8 encoding of anything)
UpT == [c \in 0..(CaseN - 1) |-> Dec8(UpEnt(c))]
LoT == [c \in 0..(CaseN - 1) |-> Dec8(LoEnt(c))]

UpperCp(c) == IF c < CaseCut THEN UpT[c] ELSE c
LowerCp(c) == IF c < CaseCut THEN LoT[c] ELSE c
UpperBytesCp(c) == IF c < CaseCut THEN UpEnt(c) ELSE Enc8Any(c)
LowerBytesCp(c) == IF c < CaseCut THEN LoEnt(c) ELSE Enc8Any(c)
\* one step of equalsNocase on two decoded codes
EqCp(c, d) == IF c > EqCut \/ d > EqCut THEN c = d ELSE LoRaw[c + 1] = LoRaw[d + 1]

-------------------------------------------------------------------------------
(* Laws of the tables, per code point c in 0 .. CaseN-1 *)

\* every entry is the UTF-8 encoding of one scalar value; only code point 0 has the entry 00 00
EntryWellFormed(c) == /\ UpT[c] >= 0 /\ IsScalar(UpT[c]) /\ UpEnt(c) = Enc8(UpT[c])
                      /\ LoT[c] >= 0 /\ IsScalar(LoT[c]) /\ LoEnt(c) = Enc8(LoT[c])
                      /\ (UpT[c] = 0) = (c = 0) /\ (LoT[c] = 0) = (c = 0)
\* the property's clause: no mapping makes the text longer (and none leaves the table's range: compositions are defined)
NoGrowth(c) == /\ Len(UpEnt(c)) <= Len8(c) /\ Len(LoEnt(c)) <= Len8(c)
               /\ UpT[c] < CaseN /\ LoT[c] < CaseN
               /\ (c < CaseCut => UpT[c] < CaseCut /\ LoT[c] < CaseCut)
\* ASCII: the C locale
AsciiIsC(c) == c < 128 => UpT[c] = UpB(c) /\ LoT[c] = LoB(c)
\* mapping twice changes nothing more
Idempotent(c) == /\ UpT[UpT[c]] = UpT[c] /\ LoT[LoT[c]] = LoT[c]
\* lower(upper(lower(c))) = lower(c) and upper(lower(upper(c))) = upper(c), except for the code points whose partner
\* has another partner in Unicode itself (micro sign, dotless / dotted i, long s, final sigma, Greek symbol variants ...)
LoUpLoExceptions == {181, 305, 383, 837, 962, 976, 977, 981, 982, 1008, 1009, 1013}
UpLoUpExceptions == {304, 1012}
RoundTrips(c) == /\ (LoT[UpT[LoT[c]]] = LoT[c]) = (c \notin LoUpLoExceptions)
                 /\ (UpT[LoT[UpT[c]]] = UpT[c]) = (c \notin UpLoUpExceptions)
\* a code point is changed by at most one of the two mappings (except the four title-case digraphs)
OneDirection(c) == UpT[c] = c \/ LoT[c] = c \/ c \in {453, 456, 459, 498}
\* the independent source: each entry is the code point itself or its UCD simple mapping; it is the UCD mapping
\* unless that needs three bytes (the table has two per entry) or the pair is younger than the table (Unicode 7+)
YoungerUp == {1011, 1321, 1323, 1325, 1327}          \* 03F3, 0529 052B 052D 052F
YoungerLo == {895, 1320, 1322, 1324, 1326}           \* 037F, 0528 052A 052C 052E
AgreesWithUcd(c) == /\ UpT[c] = (IF UcdUp[c + 1] >= 2048 \/ c \in YoungerUp THEN c ELSE UcdUp[c + 1])
                    /\ LoT[c] = (IF UcdLo[c + 1] >= 2048 \/ c \in YoungerLo THEN c ELSE UcdLo[c + 1])
\* equalsNocase on single code points is equality of the lower-cased code points (all pairs c, d up to hi)
PairLaw(c, hi) == \A d \in 0..hi : EqCp(c, d) = (LowerBytesCp(c) = LowerBytesCp(d))

TableLaws(c) == EntryWellFormed(c) /\ NoGrowth(c) /\ AsciiIsC(c) /\ Idempotent(c) /\ RoundTrips(c) /\ OneDirection(c) /\ AgreesWithUcd(c)

-------------------------------------------------------------------------------
(* The String methods on a C string z (any bytes without NUL) *)
RECURSIVE MapFrom(_, _, _, _)
MapFrom(z, p, acc, upper) ==
    IF p > Len(z) THEN acc
    ELSE LET r == EnumAt(z, p) IN
         MapFrom(z, p + r.n, acc \o (IF upper THEN UpperBytesCp(r.c) ELSE LowerBytesCp(r.c)), upper)
\* the bytes of the result, length() of them (a code 0 - truncated or overlong input - puts a 0 byte into the result)
UpperBytes(z) == MapFrom(z, 1, <<>>, TRUE)
LowerBytes(z) == MapFrom(z, 1, <<>>, FALSE)

RECURSIVE EqFrom(_, _, _, _)
EqFrom(a, p, b, q) ==
    IF p > Len(a) \/ q > Len(b) THEN (p > Len(a)) = (q > Len(b))
    ELSE LET r == EnumAt(a, p)  t == EnumAt(b, q) IN
         IF EqCp(r.c, t.c) THEN EqFrom(a, p + r.n, b, q + t.n) ELSE FALSE
EqualsNocase(a, b) == EqFrom(a, 1, b, 1)

\* laws on strings (checked over every generated byte string and its partners)
CaseBounded(z) == Len(UpperBytes(z)) <= Len(z) /\ Len(LowerBytes(z)) <= Len(z)
CaseAscii(z) == IsAscii(z) => UpperBytes(z) = AsciiUpper(z) /\ LowerBytes(z) = AsciiLower(z)
\* well-formed in, well-formed out (needs EntryWellFormed); ill-formed input may give anything
CaseKeepsWellFormed(z) == WellFormed8(z) => WellFormed8(UpperBytes(z)) /\ WellFormed8(LowerBytes(z))
\* the three together, evaluating each mapping once
CaseLaws(z) == LET u == UpperBytes(z)  l == LowerBytes(z) IN
               /\ Len(u) <= Len(z) /\ Len(l) <= Len(z)
               /\ (IsAscii(z) => u = AsciiUpper(z) /\ l = AsciiLower(z))
               /\ (WellFormed8(z) => WellFormed8(u) /\ WellFormed8(l))
NocaseIsLowerEquality(a, b) == EqualsNocase(a, b) = (LowerBytes(a) = LowerBytes(b))
===============================================================================
