---- MODULE RefCountInd ----
(* C12 - the reference-count protocol as an inductive invariant, for an unbounded number of operations (Apalache).
   Threads own handles (own[t]); Copy/Give increment atomically; a drop is two steps: the atomic decrement-and-fetch
   (Drop1) and the free that depends on the fetched value (Drop2).  IndInv implies Safe: the object is alive while any
   handle exists, and at most one thread ever observes zero.  Checked with
     apalache-mc check --cinit=CInit --init=Init   --inv=IndInv --length=0 RefCountInd.tla     (base)
     apalache-mc check --cinit=CInit --init=IndInv --inv=IndInv --length=1 RefCountInd.tla     (step)
     apalache-mc check --cinit=CInit --init=IndInv --inv=Safe   --length=0 RefCountInd.tla     (IndInv => Safe)  *)
EXTENDS Integers, FiniteSets
CONSTANT
  \* @type: Set(Int);
  T
VARIABLES
  \* @type: Int;
  rc,
  \* @type: Bool;
  alive,
  \* @type: Int -> Int;
  own,
  \* @type: Int -> Str;
  pc,
  \* @type: Int -> Int;
  tmp
CInit == T = {1,2,3}
Init == /\ rc = 1 /\ alive = TRUE
        /\ own = [t \in T |-> IF t = 1 THEN 1 ELSE 0]
        /\ pc = [t \in T |-> "idle"] /\ tmp = [t \in T |-> 0]
\* copy own handle: inc (atomic)
Copy(t) == /\ pc[t] = "idle" /\ own[t] > 0 /\ alive
           /\ rc' = rc + 1 /\ own' = [own EXCEPT ![t] = @ + 1] /\ UNCHANGED <<alive, pc, tmp>>
\* give a handle copy to another thread (models passing a copy): inc by t, ownership to u
Give(t, u) == /\ pc[t] = "idle" /\ own[t] > 0 /\ alive
           /\ rc' = rc + 1 /\ own' = [own EXCEPT ![u] = @ + 1] /\ UNCHANGED <<alive, pc, tmp>>
\* drop: step 1 atomic dec-and-fetch; step 2 free if zero
Drop1(t) == /\ pc[t] = "idle" /\ own[t] > 0
            /\ rc' = rc - 1 /\ tmp' = [tmp EXCEPT ![t] = rc - 1] /\ own' = [own EXCEPT ![t] = @ - 1]
            /\ pc' = [pc EXCEPT ![t] = "dropped"] /\ UNCHANGED alive
Drop2(t) == /\ pc[t] = "dropped"
            /\ alive' = IF tmp[t] = 0 THEN FALSE ELSE alive
            /\ pc' = [pc EXCEPT ![t] = "idle"] /\ UNCHANGED <<rc, own, tmp>>
Next == \E t \in T : Copy(t) \/ Drop1(t) \/ Drop2(t) \/ \E u \in T : Give(t, u)
Sum3 == own[1] + own[2] + own[3]
Pending0 == {t \in T : pc[t] = "dropped" /\ tmp[t] = 0}
TypeOK == /\ rc \in Int /\ alive \in BOOLEAN /\ own \in [T -> Int] /\ tmp \in [T -> Int]
          /\ pc \in [T -> {"idle", "dropped"}]
IndInv == /\ TypeOK
          /\ \A t \in T : own[t] >= 0
          /\ rc = Sum3 /\ rc >= 0
          /\ \A t \in T : pc[t] = "dropped" => tmp[t] >= 0
          /\ Cardinality(Pending0) <= 1
          /\ (Pending0 # {}) => rc = 0
          /\ (rc > 0 => alive)
          /\ (~alive => rc = 0 /\ Pending0 = {})
          /\ (rc = 0 /\ Pending0 = {} => ~alive)
Safe == (rc > 0 => alive)
====
