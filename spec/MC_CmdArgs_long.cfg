SPECIFICATION Spec
CONSTANTS
 Tokens <- TokL
 MaxToks = 4
 Specs <- SpecsL
 Probes <- ProbesQ
 MaxQ = 0
ACTION_CONSTRAINT Emit
INVARIANTS ScanAgrees Partition NoOptionLost ValueLaws UnusedOK
CHECK_DEADLOCK FALSE
