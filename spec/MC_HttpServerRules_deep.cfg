SPECIFICATION Spec
CONSTANTS
 Configs <- ConfigsQuick
 ReqSet <- ReqsCore
 MaxReqs = 4
ACTION_CONSTRAINT Emit
INVARIANTS ClosedIsFinal OpenIffLastKeeps RefusalIsFinal OptionsBuiltIn CorsEcho Http10
CHECK_DEADLOCK FALSE
