SPECIFICATION Spec
CONSTANTS
 NH = 3
 MaxNodes = 7
 TagSeq <- TagsAB
 ANames <- ANamesX
 AVals <- AValsTwo
 DTexts <- TextsTwo
 MaxKids = 3
 MaxSize = 6
 MaxOps = 4
 Ops <- ContentOps
 KeepHist = TRUE
VIEW View
ACTION_CONSTRAINT Emit
INVARIANTS TypeOK NoGarbage Acyclic AmbSound ParentInverse EditRoundTrip
PROPERTIES CloneSeparate EditLocal NavigationPure
CHECK_DEADLOCK FALSE
