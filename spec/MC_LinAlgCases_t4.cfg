SPECIFICATION Spec
CONSTANTS
 P = 2
 N = 4
 NSq = 65536
 NMul = 128
 NLsqA = 1024
 NLsqB = 32
ACTION_CONSTRAINT Emit
INVARIANTS InverseIdentity TwoFormulations SolveIdentity DetProduct NormalEquations
CHECK_DEADLOCK FALSE
