SPECIFICATION SpecBig
CONSTANTS
 NV = 1
 Lens = {0}
 Pieces = {16, 512, 1023, 1024, 2048}
 Ints <- IntsA
 MaxTotal = 31000
 MaxOps = 3
 KeepHist = TRUE
 BigLens = {100, 600, 1021, 1022, 1023, 1024, 1500, 2046, 2047, 2048, 3000, 4095, 4096, 5000}
 Shrinks = {0, 1, 15, 16, 1022, 1023, 2047}
 Deltas <- DeltasA
 LitJumps = 3
 JumpOps = 1
VIEW BigView
ACTION_CONSTRAINT Emit
INVARIANTS TypeOK HwOK
PROPERTIES Independence Identities HwMono
CHECK_DEADLOCK FALSE
