SPECIFICATION Spec
CONSTANTS
 P = 2
 N = 3
 NRhs = 0
INVARIANTS Solves AgreesAdjugate FormulationsAgree RowEquivalent PermOK PivotExists Triangular
CHECK_DEADLOCK FALSE
