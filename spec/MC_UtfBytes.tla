------------------------------ MODULE MC_UtfBytes ------------------------------
(* C08, arbitrary bytes: every byte string over the boundary alphabet (00 7F 80 BF C0 C2 DF E0 EF F0 F4 F7 F8 FF 41
   61, extended in the thorough tier) up to length MaxLen.  One state per string.  The buffer the library sees is
   the string followed by a NUL, so what it may look at is CStr(s), the part before the first 0.

   Invariants (the specification checked against itself):
     * the table-3-7 decoder and an independently written byte-at-a-time automaton (the "expected continuation
       range" formulation of the standard) accept exactly the same strings;
     * decoding then encoding a well-formed string returns it; every decoded value is a scalar value;
     * the ASCII case maps preserve length, are idempotent and are inverse on letters.
   Emit prints, per string: CStr(s), whether it is well-formed, its scalar values and UTF-16 form if it is, the
   C-locale case maps if it is ASCII, and two partner strings for the case-insensitive comparison (ASCII case of
   every letter flipped: equal on ASCII; the string without its last byte: not equal on ASCII).

   Growth: the same strings also drive the *lax* model of the library's loops (UtfLax.tla) and of its case functions
   (UtfCase.tla).  Invariant LaxLaws: every loop step consumes 1..4 bytes and stays inside the C string (termination
   variant), results are bounded, the lax loops agree with the strict decoders on well-formed text, case mapping
   never grows, keeps well-formed text well-formed, is the C locale on ASCII, and equalsNocase is equality of the
   lower-cased forms (for the string and both partners).  Emit adds field lx: what each library function must
   return on this very string, well-formed or not (compared exactly by the replayer).  The *_case configurations
   use an alphabet of the bytes of letters around the case table (A a, C3 89/A9, C8 BA, CE A3, CF 82/83, D6 86/87/88
   = the cut-over at 1415, E2 B1, F0, FF) so that mapped, unmapped and ill-formed sequences mix.                  *)
EXTENDS UtfCase, TLC, Json
CONSTANTS Alpha, MaxLen
VARIABLES s
Init == s = <<>>
Next == Len(s) < MaxLen /\ \E b \in Alpha : s' = Append(s, b)
Spec == Init /\ [][Next]_s

-------------------------------------------------------------------------------
(* second formulation of well-formedness: automaton over (remaining continuation bytes, allowed range of the next) *)
RECURSIVE Dfa(_, _, _, _, _)
Dfa(t, p, need, lo, hi) ==
    IF p > Len(t) THEN need = 0
    ELSE LET b == t[p] IN
         IF need > 0 THEN (IF b >= lo /\ b <= hi THEN Dfa(t, p + 1, need - 1, 128, 191) ELSE FALSE)
         ELSE IF b < 128 THEN Dfa(t, p + 1, 0, 0, 0)
         ELSE IF b >= 194 /\ b <= 223 THEN Dfa(t, p + 1, 1, 128, 191)
         ELSE IF b = 224 THEN Dfa(t, p + 1, 2, 160, 191)
         ELSE IF b = 237 THEN Dfa(t, p + 1, 2, 128, 159)
         ELSE IF b >= 225 /\ b <= 239 THEN Dfa(t, p + 1, 2, 128, 191)
         ELSE IF b = 240 THEN Dfa(t, p + 1, 3, 144, 191)
         ELSE IF b = 244 THEN Dfa(t, p + 1, 3, 128, 143)
         ELSE IF b >= 241 /\ b <= 243 THEN Dfa(t, p + 1, 3, 128, 191)
         ELSE FALSE
WfAutomaton(t) == Dfa(t, 1, 0, 0, 0)

Z == CStr(s)
TwoFormulations == WellFormed8(Z) = WfAutomaton(Z)
DecodeEncode == LET d == Dec8Seq(Z) IN
                d.ok => /\ Enc8Seq(d.cs) = Z
                        /\ \A i \in 1..Len(d.cs) : IsScalar(d.cs[i]) /\ d.cs[i] # 0
                        /\ Len(d.cs) <= Len(Z)
                        /\ Dec16Seq(Enc16Seq(d.cs)) = [ok |-> TRUE, cs |-> d.cs]
                        /\ Len(Enc16Seq(d.cs)) <= Len(Z)
CaseMaps == IsAscii(Z) => /\ Len(AsciiUpper(Z)) = Len(Z)
                          /\ AsciiUpper(AsciiUpper(Z)) = AsciiUpper(Z)
                          /\ AsciiLower(AsciiUpper(Z)) = AsciiLower(Z)
                          /\ AsciiUpper(AsciiLower(Z)) = AsciiUpper(Z)
CStrOK == /\ \A i \in 1..Len(Z) : Z[i] # 0
          /\ Len(Z) <= Len(s)
          /\ (Len(Z) < Len(s) => s[Len(Z) + 1] = 0)

P(t) == [i \in 1..Len(t) |-> IF t[i] >= 97 /\ t[i] <= 122 THEN t[i] - 32 ELSE IF t[i] >= 65 /\ t[i] <= 90 THEN t[i] + 32 ELSE t[i]]
Q(t) == IF t = <<>> THEN <<>> ELSE SubSeq(t, 1, Len(t) - 1)
LaxLaws == LET l == LowerBytes(Z)  q == Q(Z)  lq == LowerBytes(q) IN
           /\ StepsOK(Z) /\ BoundedOK(Z) /\ StrictOK(Z)
           /\ CaseLaws(Z)
           /\ EqualsNocase(Z, P(Z)) = (l = LowerBytes(P(Z)))
           /\ EqualsNocase(Z, q) = (l = lq) /\ EqualsNocase(q, Z) = (lq = l)
           /\ EqualsNocase(Z, l) = (l = LowerBytes(l))
           /\ EqualsNocase(Z, UpperBytes(Z)) = (l = LowerBytes(UpperBytes(Z)))
           /\ EqualsNocase(Z, Z)
Lx(t) == [it |-> EnumSeq(t), c32 |-> U32Seq(t), w |-> U16Seq(t), dw |-> CStr(U16Seq(t)), b8 |-> W8Seq(U16Seq(t)),
          n |-> CountOf(t), rt |-> FromCodes(U32Seq(t)), up |-> UpperBytes(t), lo |-> LowerBytes(t),
          eqp |-> EqualsNocase(t, P(t)), eqq |-> EqualsNocase(t, Q(t)), eqr |-> EqualsNocase(Q(t), t)]

Flip(t) == [i \in 1..Len(t) |-> IF t[i] >= 97 /\ t[i] <= 122 THEN t[i] - 32 ELSE IF t[i] >= 65 /\ t[i] <= 90 THEN t[i] + 32 ELSE t[i]]
Rec(t) == LET d == Dec8Seq(t) IN
          [k |-> "bytes", z |-> t, wf |-> d.ok, cs |-> d.cs, w |-> Enc16Seq(d.cs),
           ascii |-> IsAscii(t),
           up |-> IF IsAscii(t) THEN AsciiUpper(t) ELSE <<>>,
           lo |-> IF IsAscii(t) THEN AsciiLower(t) ELSE <<>>,
           p |-> Flip(t),                                                    \* partners for equalsNocase: case flipped,
           q |-> IF t = <<>> THEN <<>> ELSE SubSeq(t, 1, Len(t) - 1),        \* and a proper prefix (never equal for ASCII)
           lx |-> Lx(t),
           \* hazard tag: the string ends in the lead byte of a two-byte sequence (110xxxxx) whose continuation is missing
           hz |-> IF t # <<>> /\ t[Len(t)] >= 192 /\ t[Len(t)] <= 223 THEN {"CountTruncatedLead"} ELSE {}]
Emit == PrintT(ToJson(Rec(CStr(s'))))
===============================================================================
