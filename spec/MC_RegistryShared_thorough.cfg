SPECIFICATION Spec
CONSTANTS
 Slots = {1, 2, 3, 4}
 Objs = {1, 2, 3}
 DerivedSlots = {3, 4}
 DerivedObjs = {1, 2}
 MaxOps = 7
 KeepHist = TRUE
VIEW View
ACTION_CONSTRAINT Emit
INVARIANTS TypeOK AliveIffReferenced DestroyedOnce
PROPERTIES NeverEarly NoResurrection
CHECK_DEADLOCK FALSE
