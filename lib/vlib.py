"""Common machinery for the /verif checks (see DESIGN.md sections 3-5).

Everything here is plain python3 (stdlib only).  A check module (checks/Cxx.py) receives a Ctx and
uses it to: build the library and its C++ harnesses from /repo's current working tree, run TLC on the
specifications under spec/, push TLC-generated behaviours through the replayers (R), validate recorded
implementation traces with TLC (V), report violations / known findings, and write the evidence file.
"""
import concurrent.futures as cf
import fcntl
import hashlib
import json
import os
import re
import shutil
import subprocess
import sys
import threading
import time

VERIF = os.path.dirname(os.path.dirname(os.path.abspath(__file__)))
REPO = os.environ.get("VERIF_REPO", "/repo")
BUILD = os.path.join(VERIF, "build")
SPEC = os.path.join(VERIF, "spec")
HARNESS = os.path.join(VERIF, "harness")
ALT = os.path.realpath(REPO) != "/repo"      # development runs against a scratch copy leave evidence/ and out/ alone
OUT = os.path.join(VERIF, "out") if not ALT else os.path.join(BUILD, "alt-out")
EVID = os.path.join(VERIF, "evidence") if not ALT else os.path.join(BUILD, "alt-evidence")
JARS = "/opt/veriftools/tla/tla2tools.jar:/opt/veriftools/tla/CommunityModules-deps.jar"
NCPU = os.cpu_count() or 4
GUARD = "ASL_VERIF"

CXX = "clang++"
STD = "-std=c++11"
VARIANTS = {
    "asan": ["-O1", "-g", "-fno-omit-frame-pointer", "-fsanitize=address"],
    "tsan": ["-O1", "-g", "-fno-omit-frame-pointer", "-fsanitize=thread"],
    "plain": ["-O1", "-g"],
}
SKIP_SRC = {"TlsSocket.cpp"}


class HarnessError(Exception):
    """Machinery failure (TLC parse error, build failure, ...): exit 2, never a violation."""


def log(*a):
    print("[verif]", *a, file=sys.stderr, flush=True)


def sh(cmd, **kw):
    return subprocess.run(cmd, stdout=subprocess.PIPE, stderr=subprocess.STDOUT, text=True, **kw)


# ----------------------------------------------------------------------------------------------
# known findings
# ----------------------------------------------------------------------------------------------

def load_known(pid):
    """known_findings.txt lines:
         open: property=C01 hazard=GrowWhileShared <what fails>
         fixed: property=C02 <commit> <what failed>
       Only 'open' entries suppress anything; they are matched by the spec-level hazard name."""
    res = {}
    # VERIF_KNOWN_EXTRA: development only (a proposed known-findings file tried out before it is committed)
    for p in (os.path.join(VERIF, "known_findings.txt"), os.environ.get("VERIF_KNOWN_EXTRA", "")):
        if not p or not os.path.exists(p):
            continue
        for ln in open(p):
            ln = ln.strip()
            m = re.match(r"open:\s+property=(\S+)\s+hazard=(\S+)\s+(.*)", ln)
            if m and m.group(1) == pid:
                res[m.group(2)] = m.group(3)
    return res


# ----------------------------------------------------------------------------------------------
# building the implementation and the harnesses
# ----------------------------------------------------------------------------------------------

def _tree_hash(extra=""):
    h = hashlib.sha1()
    h.update(extra.encode())
    for sub in ("src", "include"):
        for root, dirs, files in sorted(os.walk(os.path.join(REPO, sub))):
            dirs.sort()
            for f in sorted(files):
                if f.endswith((".cpp", ".h", ".hpp", ".c")):
                    p = os.path.join(root, f)
                    h.update(os.path.relpath(p, REPO).encode())
                    with open(p, "rb") as fh:
                        h.update(fh.read())
    return h.hexdigest()[:16]


def _prune(parent, prefix, keep):
    try:
        ds = [os.path.join(parent, d) for d in os.listdir(parent) if d.startswith(prefix)]
    except FileNotFoundError:
        return
    ds = [d for d in ds if os.path.isdir(d)]
    ds.sort(key=lambda d: os.path.getmtime(d), reverse=True)
    now = time.time()
    for i, d in enumerate(ds):
        # keep the newest few; drop what has not been used for hours (several builders may share this cache)
        if i >= keep or (i >= 3 and now - os.path.getmtime(d) > 6 * 3600):
            shutil.rmtree(d, ignore_errors=True)


class Lib:
    def __init__(self, variant, d, flags):
        self.variant, self.dir, self.flags = variant, d, flags
        self.lib = os.path.join(d, "libasl.a")


def build_lib(variant="asan", defines=()):
    """Compile all library sources of REPO's *working tree* (hash-keyed cache under build/lib)."""
    flags = [STD] + VARIANTS[variant] + ["-DASL_STATIC", "-D" + GUARD] + ["-D" + d for d in defines] + \
            ["-I" + os.path.join(REPO, "include"), "-w"]
    key = _tree_hash(" ".join(flags))
    parent = os.path.join(BUILD, "lib")
    os.makedirs(parent, exist_ok=True)
    d = os.path.join(parent, "%s-%s" % (variant, key))
    lockf = open(os.path.join(parent, ".lock-%s" % variant), "w")
    fcntl.flock(lockf, fcntl.LOCK_EX)
    try:
        lib = Lib(variant, d, flags)
        if os.path.exists(lib.lib):
            os.utime(d)
            return lib
        os.makedirs(d, exist_ok=True)
        srcs = sorted(f for f in os.listdir(os.path.join(REPO, "src")) if f.endswith(".cpp") and f not in SKIP_SRC)

        def one(f):
            o = os.path.join(d, f[:-4] + ".o")
            r = sh([CXX] + flags + ["-c", os.path.join(REPO, "src", f), "-o", o])
            return f, r.returncode, r.stdout, o

        objs = []
        with cf.ThreadPoolExecutor(NCPU) as ex:
            for f, rc, out, o in ex.map(one, srcs):
                if rc != 0:
                    raise HarnessError("library build failed (%s):\n%s" % (f, out[-4000:]))
                objs.append(o)
        r = sh(["ar", "rcs", lib.lib + ".tmp"] + objs)
        if r.returncode != 0:
            raise HarnessError("ar failed: " + r.stdout)
        os.rename(lib.lib + ".tmp", lib.lib)
        for o in objs:
            os.unlink(o)
        _prune(parent, variant + "-", 40)
        return lib
    finally:
        fcntl.flock(lockf, fcntl.LOCK_UN)
        lockf.close()


def build_harness(lib, name, srcs, extra=(), std=None):
    """Compile harness/<srcs> against the library build `lib`; cached by source content."""
    h = hashlib.sha1()
    paths = [os.path.join(HARNESS, s) for s in srcs]
    deps = list(paths)
    cdir = os.path.join(HARNESS, "common")
    deps += sorted(os.path.join(cdir, f) for f in os.listdir(cdir))
    deps += sorted(os.path.join(HARNESS, f) for f in os.listdir(HARNESS) if f.endswith(".h"))   # shared cNN_common.h headers
    for p in deps:
        h.update(p.encode())
        h.update(open(p, "rb").read())
    h.update(" ".join(extra).encode())
    exe = os.path.join(lib.dir, "h-%s-%s" % (name, h.hexdigest()[:12]))
    lockf = open(os.path.join(lib.dir, ".lock-" + name), "w")
    fcntl.flock(lockf, fcntl.LOCK_EX)
    try:
        if os.path.exists(exe):
            return exe
        for f in os.listdir(lib.dir):
            if f.startswith("h-%s-" % name):
                os.unlink(os.path.join(lib.dir, f))
        # harnesses are compiled at -O0: clang 14 needs ~60 s for the big replay functions at -O1 under ASan (1.9 s at -O0)
        flags = [f for f in lib.flags if not f.startswith("-std") and f != "-O1"] + ["-O0", std or STD]
        cmd = [CXX] + flags + ["-I" + cdir] + list(extra) + paths + [lib.lib, "-lpthread", "-ldl", "-o", exe + ".tmp"]
        r = sh(cmd)
        if r.returncode != 0:
            raise HarnessError("harness build failed (%s):\n%s" % (name, r.stdout[-6000:]))
        os.rename(exe + ".tmp", exe)
        return exe
    finally:
        fcntl.flock(lockf, fcntl.LOCK_UN)
        lockf.close()


SAN_ENV = {
    "ASAN_OPTIONS": "detect_leaks=1:abort_on_error=0:exitcode=99:allocator_may_return_null=1:detect_stack_use_after_return=0:max_allocation_size_mb=4096:malloc_context_size=12",
    "LSAN_OPTIONS": "exitcode=98",
    "UBSAN_OPTIONS": "print_stacktrace=1",
    "TSAN_OPTIONS": "exitcode=97:halt_on_error=0",
    "LC_ALL": "C",
    "TZ": "UTC",
}


def run_env(extra=None):
    e = dict(os.environ)
    e.update(SAN_ENV)
    if extra:
        e.update(extra)
    return e


# ----------------------------------------------------------------------------------------------
# TLC
# ----------------------------------------------------------------------------------------------

class TlcResult:
    def __init__(self):
        self.rc = None
        self.generated = 0
        self.distinct = 0
        self.queue = 0
        self.depth = 0
        self.diameter = 0
        self.lines = []          # non-emit output lines (bounded)
        self.emitted = 0
        self.coverage = {}       # action name -> (taken, generated)
        self.wall = 0.0
        self.timed_out = False
        self.cmd = ""

    @property
    def ok(self):
        return self.rc == 0

    def tail(self, n=40):
        return "\n".join(self.lines[-n:])

    def violated(self):
        """name of a violated invariant/property, or None"""
        for ln in self.lines:
            m = re.search(r"Invariant (\S+) is violated", ln)
            if m:
                return m.group(1)
            if "Temporal properties were violated" in ln:
                return "temporal"
            m = re.search(r"Action property (\S+) is violated", ln)
            if m:
                return m.group(1)
            if "Deadlock reached" in ln:
                return "deadlock"
            if "Assumption" in ln and "is false" in ln:
                return "assumption"
            if "Postcondition" in ln and ("is false" in ln or "violated" in ln):
                return "postcondition"
        return None


_tlc_seq = [0]


def tlc(*args, **kw):
    """_tlc_once, repeated (at most twice, after a pause) when the JVM was killed from outside (SIGKILL before its time limit: the
    kernel's out-of-memory killer on a machine shared with other memory-hungry jobs).  A kill says nothing about the model."""
    timeout = kw.get("timeout", 600)
    for attempt in range(3):
        r = _tlc_once(*args, **kw)
        killed = r.rc == -9 or (r.rc == 137 and r.wall < 0.9 * timeout)
        if not killed or attempt == 2:
            return r
        print("[verif] TLC was killed from outside after %.0f s (memory pressure?): waiting, then running it again (%d)" % (r.wall, attempt + 1), flush=True)
        time.sleep(45 * (attempt + 1))
    return r


def _tlc_once(spec, cfg=None, workers=None, timeout=600, env=None, simulate=None, depth=None, seed=None,
        xss=None, xmx="8g", emit_to=None, coverage=False, dfs=False, extra=(), keep_lines=400, cwd=None,
        emit_filter=None):
    """Run TLC on spec/<spec>.tla with spec/<cfg>.  Lines that start with '"' (produced by PrintT(ToJson(..)))
    are unescaped and written to emit_to (one JSON document per line); statistics are parsed from the rest."""
    cwd = cwd or SPEC
    _tlc_seq[0] += 1
    meta = os.path.join(BUILD, "tlc", "%d-%d-%s" % (os.getpid(), _tlc_seq[0], os.path.basename(spec)))
    shutil.rmtree(meta, ignore_errors=True)
    os.makedirs(meta, exist_ok=True)
    if workers is None:
        workers = NCPU
    cmd = ["java", "-XX:+UseParallelGC", "-Xmx" + xmx, "-XX:MaxDirectMemorySize=" + xmx]  # (TLC's off-heap fingerprint set would otherwise take 25% of the RAM)
    cmd.append("-Djava.io.tmpdir=" + meta)   # TLC unpacks its standard modules into a tmp dir per run; keep it inside the metadir
    if xss:
        cmd.append("-Xss" + xss)
    if dfs:
        cmd.append("-Dtlc2.tool.queue.IStateQueue=StateDeque")
    cmd += ["-cp", JARS, "tlc2.TLC", "-noGenerateSpecTE", "-workers", str(workers), "-metadir", meta]
    if cfg:
        cmd += ["-config", cfg if cfg.endswith(".cfg") else cfg + ".cfg"]
    if simulate:
        cmd += ["-simulate", "num=%d" % simulate]
        if depth:
            cmd += ["-depth", str(depth)]
    if seed is not None:
        cmd += ["-seed", str(seed)]
    if coverage:
        cmd += ["-coverage", "1"]
    cmd += list(extra)
    cmd.append(spec if spec.endswith(".tla") else spec + ".tla")
    e = dict(os.environ)
    e["LC_ALL"] = "C"
    if env:
        e.update(env)
    res = TlcResult()
    res.cmd = " ".join(cmd)
    t0 = time.time()
    ef = open(emit_to, "w") if emit_to else None
    p = subprocess.Popen(["timeout", "-k", "5", str(int(timeout))] + cmd, cwd=cwd, env=e, stdout=subprocess.PIPE,
                         stderr=subprocess.STDOUT, text=True, errors="replace", bufsize=1 << 20)
    in_cov = False
    try:
        for ln in p.stdout:
            if ln.startswith('"'):
                if ef is not None:
                    try:
                        s = json.loads(ln)
                    except ValueError:
                        continue
                    if emit_filter is not None:
                        s = emit_filter(s)
                        if s is None:
                            continue
                    ef.write(s)
                    ef.write("\n")
                res.emitted += 1
                continue
            ln = ln.rstrip("\n")
            m = re.match(r"(\d+) states generated, (\d+) distinct states found, (\d+) states left on queue", ln)
            if m:
                res.generated, res.distinct, res.queue = int(m.group(1)), int(m.group(2)), int(m.group(3))
            m = re.search(r"Progress\(\d+\) at .*: ([\d,]+) states generated.*?([\d,]+) distinct states found", ln)
            if m:
                res.generated = int(m.group(1).replace(",", ""))
                res.distinct = int(m.group(2).replace(",", ""))
            m = re.search(r"depth of the complete state graph search is (\d+)", ln)
            if m:
                res.depth = int(m.group(1))
            m = re.match(r"<(\w+) line \d+, col \d+ to line \d+, col \d+ of module (\w+)>: (\d+):(\d+)", ln)
            if m:
                t, g = int(m.group(3)), int(m.group(4))
                a = res.coverage.get(m.group(1), (0, 0))
                res.coverage[m.group(1)] = (a[0] + t, a[1] + g)
                continue
            if ln.startswith("  ") and coverage:
                continue  # per-expression coverage detail
            if len(res.lines) < keep_lines or "rror" in ln or "iolat" in ln:
                res.lines.append(ln)
    finally:
        p.wait()
        if ef:
            ef.close()
        shutil.rmtree(meta, ignore_errors=True)
    res.rc = p.returncode
    res.timed_out = p.returncode in (124, 137)
    res.wall = time.time() - t0
    return res


def tlc_expect_ok(r, what):
    """A model run that is expected to satisfy everything; anything else is a machinery error unless the
    caller handles property violations first."""
    if r.timed_out:
        raise HarnessError("%s: TLC timed out\n%s" % (what, r.tail()))
    if r.rc != 0:
        raise HarnessError("%s: TLC exit %s\n%s" % (what, r.rc, r.tail(60)))


def zero_coverage(r, ignore=()):
    # TLC prints "<Action ...>: distinct:generated"; an action that generated no successor at all was never enabled
    return sorted(a for a, (t, g) in r.coverage.items() if g == 0 and a not in ignore and a not in ("Init",))


# ----------------------------------------------------------------------------------------------
# the check context
# ----------------------------------------------------------------------------------------------

class Ctx:
    def __init__(self, pid, tier, seed):
        self.pid, self.tier, self.seed = pid, tier, seed
        self.t0 = time.time()
        self.states = 0
        self.transitions = 0
        self.traces = 0            # behaviours replayed into / traces recorded from the implementation and accepted
        self.evaluations = 0
        self.distinct = 0
        self.samples = []
        self.assumptions = []
        self.engines = []          # free text: which spec/config ran, with numbers
        self.violations = []       # (description, replay path)
        self.known_hits = {}
        self.known = load_known(pid)
        self.exhaustive = False
        self.rule = ""
        self.extra = {}
        self._lock = threading.RLock()     # lanes of one check run in threads and share this context: see count()
        self.tmp = os.path.join(BUILD, "tmp", "%s-%d" % (pid, os.getpid()))
        shutil.rmtree(self.tmp, ignore_errors=True)
        os.makedirs(self.tmp, exist_ok=True)
        self.replay_dir = os.path.join(OUT, "replay", pid)
        os.makedirs(self.replay_dir, exist_ok=True)

    @property
    def quick(self):
        return self.tier == "quick"

    def pick(self, q, t):
        return q if self.quick else t

    def count(self, **kw):
        """Adds to the counters of the evidence (states, transitions, traces, evaluations, distinct, _rec_exec) in one step.
        `ctx.traces += f()` reads the counter *before* f runs: whatever another lane added meanwhile would be lost, and the
        evidence would describe less work than was done.  Code that may run beside another lane uses this instead."""
        with self._lock:
            for k, v in kw.items():
                setattr(self, k, getattr(self, k, 0) + v)

    # -- model runs ---------------------------------------------------------------------------
    def model(self, spec, cfg, what=None, must_cover=True, ignore_cov=(), count=True, **kw):
        """Exhaustive/simulation run of a specification whose invariants must hold.  A violated invariant
        in a *design* model is a model failure (exit 2) - the checks decide properties of the code through the
        conformance runs, and design-level counterexamples that correspond to known findings are expressed
        as separate expected-violation runs (model_expect_violation)."""
        kw.setdefault("coverage", must_cover)
        r = tlc(spec, cfg, **kw)
        what = what or "%s/%s" % (spec, cfg)
        tlc_expect_ok(r, what)
        if must_cover and not kw.get("simulate"):
            z = zero_coverage(r, ignore_cov)
            if z:
                raise HarnessError("%s: vacuous run, actions never taken: %s" % (what, z))
        if count:
            self.count(states=r.distinct, transitions=r.generated)
        self.engines.append("%s: %d distinct states, %d transitions, depth %d, %.1fs" % (what, r.distinct, r.generated, r.depth, r.wall))
        log(self.engines[-1])
        return r

    # -- reporting ----------------------------------------------------------------------------
    def add_samples(self, xs, cap=5):
        for x in xs:
            if len(self.samples) < cap:
                self.samples.append(x)

    def violation(self, desc, content=None, path=None, tag="case"):
        if path is None:
            hsh = hashlib.sha1((content or desc).encode()).hexdigest()[:12]
            path = os.path.join(self.replay_dir, "%s-%s.json" % (tag, hsh))
            with open(path, "w") as f:
                f.write(content if content is not None else desc)
                if not (content or desc).endswith("\n"):
                    f.write("\n")
        self.violations.append((desc, path))
        log("VIOLATION candidate: %s -> %s" % (desc[:300], path))

    def known_hit(self, hazard, n=1):
        self.known_hits[hazard] = self.known_hits.get(hazard, 0) + n

    def finish(self):
        wall = time.time() - self.t0
        cov = {
            "states": int(self.states),
            "transitions": int(self.transitions),
            "traces_validated_against_impl": int(self.traces),
            "evaluations": int(self.evaluations),
            "distinct_nontrivial": int(self.distinct),
            "rule": self.rule,
            "samples": self.samples[:8] if self.samples else ["(no sample recorded)"],
            "exhaustive": bool(self.exhaustive),
            "engines": self.engines,
            "known_findings_hit": self.known_hits,
        }
        cov.update(self.extra)
        ev = {
            "property_id": self.pid, "tier": self.tier, "seed": int(self.seed), "level": "model_checking",
            "coverage": cov, "assumptions": self.assumptions, "wall_s": round(wall, 2),
            "violations": len(self.violations),
        }
        # ids outside properties.jsonl (X..: growth of the specification over unlisted components) keep their evidence apart
        evid = EVID if self.pid.startswith("C") or ALT else os.path.join(VERIF, "extras", "evidence")
        os.makedirs(evid, exist_ok=True)
        with open(os.path.join(evid, self.pid + ".json"), "w") as f:
            json.dump(ev, f, indent=1)
            f.write("\n")
        shutil.rmtree(self.tmp, ignore_errors=True)
        for hz, what in sorted(self.known.items()):
            print("KNOWN-FINDING: property=%s %s: %s (cases carrying this hazard in this run: %d)" %
                  (self.pid, hz, what, self.known_hits.get(hz, 0)))
        if self.violations:
            seen = set()
            for desc, path in self.violations:
                if path in seen:
                    continue
                seen.add(path)
                print("VIOLATION property=%s replay=%s" % (self.pid, path))
                print("  " + desc.replace("\n", "\n  ")[:1500])
            return 1
        print("OK property=%s tier=%s states=%d transitions=%d impl_traces=%d evaluations=%d wall=%.1fs" %
              (self.pid, self.tier, self.states, self.transitions, self.traces, self.evaluations, wall))
        return 0

    # -- R: replay TLC-generated behaviours ---------------------------------------------------
    def replay(self, exe, cases, jobs=None, args=(), timeout=1800, env=None, label="replay"):
        """Run a replayer built on harness/common/vrun.h over a case file (one JSON case per line) in `jobs`
        hash-sharded processes.  Returns the merged summary; failures become violations unless every hazard
        the failing case carries... (hazard cases are skipped by the replayer when listed as open)."""
        jobs = jobs or NCPU
        outs = []
        procs = []
        skip = ",".join(sorted(self.known.keys()))
        for k in range(jobs):
            o = os.path.join(self.tmp, "%s-%d.sum" % (re.sub(r"[^A-Za-z0-9_.-]", "_", label), k))
            outs.append(o)
            cmd = [exe, "--cases", cases, "--shard", "%d/%d" % (k, jobs), "--summary", o,
                   "--faildir", self.replay_dir] + list(args)
            if skip:
                cmd += ["--skip-hazards", skip]
            procs.append(subprocess.Popen(["timeout", "-k", "5", str(int(timeout))] + cmd, env=run_env(env),
                                          stdout=subprocess.DEVNULL, stderr=subprocess.PIPE, text=True, errors="replace"))
        merged = {"cases": 0, "executed": 0, "nontrivial": 0, "skipped": {}, "failures": [], "samples": []}
        for k, p in enumerate(procs):
            _, err = p.communicate()
            if p.returncode not in (0, 1) or not os.path.exists(outs[k]):
                raise HarnessError("%s shard %d: exit %s\n%s" % (label, k, p.returncode, (err or "")[-3000:]))
            s = json.load(open(outs[k]))
            for key in ("cases", "executed", "nontrivial"):
                merged[key] += s.get(key, 0)
            for hz, n in s.get("skipped", {}).items():
                merged["skipped"][hz] = merged["skipped"].get(hz, 0) + n
            merged["failures"] += s.get("failures", [])
            merged["samples"] += s.get("samples", [])[:1]
        for hz, n in merged["skipped"].items():
            self.known_hit(hz, n)
        for f in merged["failures"]:
            self.violation("%s: %s" % (label, f.get("msg", "")), path=f.get("replay"))
        self.count(traces=merged["executed"], evaluations=merged["executed"], distinct=merged["nontrivial"])
        self.add_samples(merged["samples"])
        self.engines.append("%s: %d cases, %d executed on the implementation, %d skipped (open findings), %d failures" %
                            (label, merged["cases"], merged["executed"], sum(merged["skipped"].values()), len(merged["failures"])))
        log(self.engines[-1])
        return merged

    # -- V: record executions of the implementation ---------------------------------------------
    def record(self, exe, count, events, label, extra_args=(), timeout=900, env=None, avoid=True):
        """Run a recorder (harness/common/vrec.h conventions) `count` times with seeds derived from VERIF_SEED.
        Returns the list of ndjson files.  A recorder that dies (sanitizer report, signal, time limit, own
        consistency check) is a violation; its replay file names the recorder and the seed."""
        slabel = re.sub(r"[^A-Za-z0-9_.-]", "_", label)
        jobs = []
        for k in range(count):
            seed = derive_seed(self.seed, label, k)
            out = os.path.join(self.tmp, "%s-%d.ndjson" % (slabel, k))
            cmd = [exe, "--seed", str(seed), "--events", str(events), "--out", out] + list(extra_args)
            if avoid and self.known:
                cmd += ["--avoid", ",".join(sorted(self.known))]
            jobs.append((seed, out, cmd))

        def one(j):
            seed, out, cmd = j
            p = subprocess.run(["timeout", "-k", "5", str(int(timeout))] + cmd, env=run_env(env), stdout=subprocess.PIPE,
                               stderr=subprocess.PIPE, text=True, errors="replace")
            return j, p

        files = []
        with cf.ThreadPoolExecutor(NCPU) as ex:
            for (seed, out, cmd), p in ex.map(one, jobs):
                if p.returncode != 0:
                    info = {"recorder": os.path.basename(exe).split("-")[1] if "-" in os.path.basename(exe) else os.path.basename(exe),
                            "seed": seed, "events": events, "args": list(extra_args), "exit": p.returncode,
                            "avoid": sorted(self.known) if avoid else []}
                    path = os.path.join(self.replay_dir, "rec-%s-%d.json" % (slabel, seed))
                    with open(path, "w") as f:
                        json.dump(info, f)
                        f.write("\n")
                    last = _tail_lines(out, 3)
                    self.violation("%s: recorder died with exit %s (seed %d) after events:\n%s\n%s" %
                                   (label, p.returncode, seed, last, (p.stderr or "")[-3500:]), path=path)
                    continue
                files.append(out)
        nev = nex = 0
        for f in files:
            with open(f, "rb") as fh:
                for ln in fh:
                    nev += 1
                    if ln.startswith(b'{"k":0,') or ln.startswith(b'{"objs"') or ln.startswith(b'{"sum"') or ln.startswith(b'{"op":"reset"') or ln.startswith(b'{"e":"Reset"') or ln.startswith(b'{"e":"reset"'):
                        nex += 1
        self.count(evaluations=nev, _rec_exec=nex)
        self.engines.append("%s: %d recorded runs, %d executions, %d events" % (label, len(files), nex, nev))
        log(self.engines[-1])
        return files

    # -- V: validate recorded traces ----------------------------------------------------------
    def validate_traces(self, trace_spec, cfg, files, label="trace", timeout=900, dfs=False, xss=None, xmx="4g",
                        parallel=None, nevents=None):
        """TLC -workers 1 on each recorded ndjson file (TRACE env); the trace spec's POSTCONDITION decides
        acceptance.  A rejection is re-run once and only then reported."""
        parallel = parallel or max(1, NCPU // 2)

        def one(f):
            r = tlc(trace_spec, cfg, workers=1, timeout=timeout, env={"TRACE": f}, dfs=dfs, xss=xss, xmx=xmx)
            return f, r

        bad = []
        with cf.ThreadPoolExecutor(parallel) as ex:
            for f, r in ex.map(one, files):
                if r.rc == 0:
                    self.count(states=r.distinct, transitions=r.generated)
                    continue
                bad.append((f, r))
        accepted = len(files) - len(bad)
        for f, r in bad:
            r2 = tlc(trace_spec, cfg, workers=1, timeout=timeout, env={"TRACE": f}, dfs=dfs, xss=xss, xmx=xmx)
            if r2.rc == 0:
                accepted += 1
                continue
            v = r2.violated()
            if v is None or r2.timed_out:
                raise HarnessError("%s: TLC failed on %s (exit %s)\n%s" % (label, f, r2.rc, r2.tail(50)))
            # rejected: the failing line is the deepest level reached
            line = r2.depth or r2.diameter
            keep = os.path.join(self.replay_dir, "%s-%s" % (re.sub(r"[^A-Za-z0-9_.-]", "_", label), os.path.basename(f)))
            shutil.copyfile(f, keep)
            self.violation("%s: recorded implementation trace rejected by %s near event %s (%s)\n%s" %
                           (label, trace_spec, line, v, _nth_line(f, line)), path=keep)
        with self._lock:
            if accepted == len(files):
                self.traces += getattr(self, "_rec_exec", 0)
                self._rec_exec = 0
            else:
                self.traces += accepted
        self.engines.append("%s: %d/%d recorded files accepted by %s" % (label, accepted, len(files), trace_spec))
        log(self.engines[-1])
        return accepted


def _tail_lines(path, n):
    try:
        with open(path, "rb") as f:
            f.seek(0, 2)
            size = f.tell()
            f.seek(max(0, size - 4000))
            return b"\n".join(f.read().splitlines()[-n:]).decode("latin1")[:1500]
    except Exception:
        return ""


def _nth_line(path, n):
    try:
        with open(path) as f:
            for i, ln in enumerate(f, 1):
                if i == n:
                    return ln.strip()[:600]
    except Exception:
        pass
    return ""


def derive_seed(seed, *parts):
    h = hashlib.sha1(("%s|%s" % (seed, "|".join(map(str, parts)))).encode()).hexdigest()
    return int(h[:8], 16) & 0x7FFFFFFF


def replay_recorded(path, lib, hname, hsrcs, trace_spec, cfg, extra_args=(), xss=None, dfs=False):
    """--replay for V-direction violations: either a stored (rejected) trace, which is validated again, or a
    recorder crash descriptor {recorder, seed, events, args}, which is re-recorded and validated."""
    tmp = os.path.join(BUILD, "tmp", "replay-%d" % os.getpid())
    os.makedirs(tmp, exist_ok=True)
    try:
        trace = path
        if not path.endswith(".ndjson"):
            info = json.load(open(path))
            exe = build_harness(lib, hname, hsrcs)
            trace = os.path.join(tmp, "t.ndjson")
            cmd = [exe, "--seed", str(info["seed"]), "--events", str(info["events"]), "--out", trace] + list(info.get("args", []))
            if info.get("avoid"):
                cmd += ["--avoid", ",".join(info["avoid"])]
            p = subprocess.run(["timeout", "900"] + cmd, env=run_env())
            if p.returncode != 0:
                print("recorder failed again with exit %d (seed %s): violation reproduced" % (p.returncode, info["seed"]))
                return 1
        r = tlc(trace_spec, cfg, workers=1, timeout=1800, env={"TRACE": trace}, xss=xss, dfs=dfs)
        if r.rc == 0:
            print("trace accepted by %s" % trace_spec)
            return 0
        if r.violated() is None:
            print(r.tail(40))
            return 2
        print("trace rejected by %s near event %d: %s" % (trace_spec, r.depth, _nth_line(trace, r.depth)))
        return 1
    finally:
        shutil.rmtree(tmp, ignore_errors=True)


def apalache(spec, args, workdir, timeout=600):
    """Runs apalache-mc check on a copy of spec/<spec>.tla inside workdir (Apalache writes _apalache-out there).
    Returns (ok, tail of the output)."""
    os.makedirs(workdir, exist_ok=True)
    src = os.path.join(SPEC, spec if spec.endswith(".tla") else spec + ".tla")
    shutil.copy(src, workdir)
    r = sh(["timeout", "-k", "5", str(int(timeout)), "apalache-mc", "check"] + list(args) + [os.path.basename(src)], cwd=workdir)
    ok = r.returncode == 0 and "EXITCODE: OK" in r.stdout
    return ok, r.stdout[-1500:]
